#
# C18 defect 4: load( limit=N ) returns ( self.until, events ) when the limit is reached; while no
# record has been applied yet ( the start point lies ahead of the first record, which is within the
# look-ahead ) self.until is None, so the caller gets None instead of a timestamp.  The docstring:
# "<timestamp> is the current advancing historical timestamp (ie. that of the last historical record
# applied to self.values, if any, or the current historical timestamp)".
#
from __future__ import print_function

import gzip
import io
import os
import shutil
import sys
import tempfile
import warnings

warnings.simplefilter( 'ignore' )

from cpppo.history import files as hf
from cpppo.history.files import logger, loader
from cpppo.history.times import timestamp


class Clock( object ):
    def __init__( self, t ):
        self.t			= t
    def __call__( self ):
        return self.t

WALL				= 1700000000.0
clock				= Clock( WALL )
hf.timer			= clock			# the wall clock the reader/loader advance against


def write( path, records ):
    with logger( path ) as l:
        for t,data in records:
            l.write( data, now=t )

def main():
    tmp				= tempfile.mkdtemp( prefix='c18_defect4_' )
    try:
        path			= os.path.join( tmp, 'plant.hst' )
        T			= 1600000000.0
        write( path, [ (T + 5,{ 40001: 5 }), (T + 6,{ 40001: 6 }), (T + 7,{ 40001: 7 }) ] )

        clock.t			= WALL
        ld			= loader( path, historical=T, basis=clock.t, lookahead=10.0 )
        cur,events		= ld.load( limit=1 )
        print( "load( limit=1 ) returned timestamp %r with %d event(s); expected the historical time %s" % (
            cur, len( events ), ld.advance() ))
        if not isinstance( cur, timestamp ):
            print( "CONTRADICTION: the <timestamp> returned by load() is %r" % ( cur, ))
            return 1
        return 0
    finally:
        shutil.rmtree( tmp, ignore_errors=True )

if __name__ == "__main__":
    sys.exit( main() )
