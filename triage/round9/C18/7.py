#
# C18 defect 7: the start point.  reader: "Replays history from the provided 'historical'
# timestamp.  The history files will be searched for the first file beginning at or before
# 'historical'."  The loader's initial open passes target=None, and reader.open then takes the
# ADVANCING historical time of the first load() call instead: if that first call comes after a newer
# file has begun, the records between the start point and that file are never delivered ( and a
# register only set there never reaches the replayed map ) -- what is replayed depends on the
# schedule of load() calls.
#
from __future__ import print_function

import gzip
import io
import os
import shutil
import sys
import tempfile
import warnings

warnings.simplefilter( 'ignore' )

from cpppo.history import files as hf
from cpppo.history.files import logger, loader
from cpppo.history.times import timestamp


class Clock( object ):
    def __init__( self, t ):
        self.t			= t
    def __call__( self ):
        return self.t

WALL				= 1700000000.0
clock				= Clock( WALL )
hf.timer			= clock			# the wall clock the reader/loader advance against


def write( path, records ):
    with logger( path ) as l:
        for t,data in records:
            l.write( data, now=t )

def replay( path, T, schedule ):
    clock.t			= WALL
    ld				= loader( path, historical=T, basis=clock.t )
    got				= []
    for dt in schedule:
        clock.t			= WALL + dt
        cur,events		= ld.load()
        got.extend( str( e['timestamp'] ) for e in events )
        if not ld:
            break
    return got, dict( (r,v) for r,(t,v) in ld.values.items() )

def main():
    tmp				= tempfile.mkdtemp( prefix='c18_defect7_' )
    try:
        path			= os.path.join( tmp, 'plant.hst' )
        T			= 1600000000.0
        write( path + '.1', [ (T - 1,{ 40001: 0 }), (T + 1,{ 40001: 1 }), (T + 2,{ 40002: 2 }), (T + 5,{ 40001: 5 }) ] )
        write( path,        [ (T + 6,{ 40001: 6 }), (T + 7,{ 40001: 7 }) ] )

        prompt			= replay( path, T, range( 0, 12 ))		# first load() at once
        late			= replay( path, T, range( 8, 12 ))		# first load() 8s after the basis
        print( "first load at +0s: %d records, final map %r" % ( len( prompt[0] ), prompt[1] ))
        print( "first load at +8s: %d records, final map %r" % ( len( late[0] ), late[1] ))
        if late != prompt:
            print( "CONTRADICTION: replay from the same start point delivers %r when the first load() is late; records %r are never delivered" % (
                late[0], [ s for s in prompt[0] if s not in late[0] ] ))
            return 1
        return 0
    finally:
        shutil.rmtree( tmp, ignore_errors=True )

if __name__ == "__main__":
    sys.exit( main() )
