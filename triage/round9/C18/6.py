#
# C18 defect 6: load( upcoming=<timestamp> ): "no events >= this timestamp will be processed and
# returned (they will be stored in self.future 'til 'upcoming' is advanced)".  The event is appended
# to the returned list as soon as the record is read, before 'upcoming' is looked at: the call that
# first meets 'upcoming' returns the event AT upcoming, and every further call with the same
# 'upcoming' reads and returns one more event beyond it.
#
from __future__ import print_function

import gzip
import io
import os
import shutil
import sys
import tempfile
import warnings

warnings.simplefilter( 'ignore' )

from cpppo.history import files as hf
from cpppo.history.files import logger, loader
from cpppo.history.times import timestamp


class Clock( object ):
    def __init__( self, t ):
        self.t			= t
    def __call__( self ):
        return self.t

WALL				= 1700000000.0
clock				= Clock( WALL )
hf.timer			= clock			# the wall clock the reader/loader advance against


def write( path, records ):
    with logger( path ) as l:
        for t,data in records:
            l.write( data, now=t )

def main():
    tmp				= tempfile.mkdtemp( prefix='c18_defect6_' )
    try:
        path			= os.path.join( tmp, 'plant.hst' )
        T			= 1600000000.0
        write( path, [ (T + i,{ 40001: i }) for i in range( 0, 11 ) ] )

        clock.t			= WALL
        ld			= loader( path, historical=T + 10, basis=clock.t )	# all 11 records are due
        upcoming		= timestamp( T + 5 )
        beyond			= []
        for call in range( 4 ):
            cur,events		= ld.load( upcoming=upcoming )
            stamps		= [ e['timestamp'] for e in events ]
            print( "load( upcoming=+5s ) #%d returned %r with events at %r" % (
                call, str( cur ), [ "+%ds" % round( s.value - T ) for s in stamps ] ))
            beyond.extend( s for s in stamps if s >= upcoming )
        if beyond:
            print( "CONTRADICTION: %d events at or after 'upcoming' were returned: %r" % (
                len( beyond ), [ str( s ) for s in beyond ] ))
            return 1
        return 0
    finally:
        shutil.rmtree( tmp, ignore_errors=True )

if __name__ == "__main__":
    sys.exit( main() )
