"""C15 defect 3: the route table cannot be supplied to the UCMM as a keyword.

UCMM.__init__ assembles its route table from the [UCMM] "Route" configuration, the class attribute .route,
"and any route from keyword parameters":

        super( UCMM, self ).__init__( *args, **kwds )
        ...
        if 'route' in kwds:		# and any route from keyword parameters
            route.update( kwds.pop( 'route' ))

but the keywords have already been handed to device.Object.__init__( name=None, instance_id=None ), which
does not know 'route': UCMM( route={...} ) raises TypeError before the table is looked at.

Expected: UCMM( route={ "1/1-3": "localhost:44819" } ).route maps 1/1, 1/2 and 1/3 to ('localhost',44819).
Observed: TypeError: __init__() got an unexpected keyword argument 'route'.
"""
from __future__ import print_function
import sys, logging

from cpppo.server.enip import device, ucmm

logging.basicConfig( level=logging.CRITICAL )

device.lookup_reset()
expected		= dict( ( "1/%d" % link, ('localhost',44819) ) for link in ( 1, 2, 3 ))
try:
    gateway		= ucmm.UCMM( route={ "1/1-3": "localhost:44819" } )
    observed		= gateway.route
except Exception as exc:
    observed		= "%s: %s" % ( type( exc ).__name__, exc )

print( "expected .route: %r" % ( expected, ))
print( "observed       : %r" % ( observed, ))
if observed != expected:
    print( "DEFECT: a route table given by keyword is not accepted" )
    sys.exit( 1 )
print( "OK" )
