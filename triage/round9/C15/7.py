"""C15 defect 7: the simulator's --route-path refuses the multi-segment route path its documentation lists.

README ( EtherNet/IP Controller Simulator, "To specify and check for a specific route_path ..." ) lists

    --route-path 1/0/2/192.168.1.2 # { backplane, slot 0 }, { port 2, link 192.168.1.2 }

among the accepted forms, the UCMM compares the whole list ( route_path == self.route_path ), and the same
text is accepted from the configuration file ( [UCMM] Route Path = 1/0/2/192.168.1.2 ).  enip.main however
asserts len( UCMM.route_path ) == 1 and does not start.

Expected: `enip.main --route-path 1/0/2/192.168.1.2 T=INT[4]` starts; serves a request carrying exactly
1/0/2/192.168.1.2 ( and one without route path ), refuses 1/0.
Observed: AssertionError "route_path: must be JSON null/0/false, or a single [port/link]" at start-up.
"""
from __future__ import print_function
import sys, time, socket, threading, logging

import cpppo
from cpppo.server.enip import logix, client
from cpppo.server.enip.main import main as enip_main

logging.basicConfig( level=logging.CRITICAL )
PORT				= 44818
ROUTE				= '1/0/2/192.168.1.2'

failure				= []
control				= cpppo.dotdict()
control.control			= cpppo.apidict( timeout=1.0 )
control.control['done']		= False

def simulator():
    try:
        enip_main( argv=[ '--no-config', '--no-udp', '--address', 'localhost:%d' % PORT,
                          '--route-path', ROUTE, 'T=INT[4]' ], server=control )
    except BaseException as exc:
        failure.append( "%s: %s" % ( type( exc ).__name__, exc ))

server				= threading.Thread( target=simulator )
server.daemon			= True
server.start()
for _ in range( 100 ):
    if failure:
        break
    try:
        socket.create_connection( ('localhost', PORT), timeout=.1 ).close()
        break
    except Exception:
        time.sleep( .1 )

def write( route_path, value ):
    """True iff T[0] = value was served w/ the given route path"""
    try:
        with client.connector( host='localhost', port=PORT, timeout=5 ) as conn:
            ops		= client.parse_operations( [ 'T[0]=(INT)%d' % value ], route_path=route_path,
                                                   send_path=None if route_path else '' )
            for idx,dsc,op,rpy,sts,val in conn.synchronous( operations=ops, timeout=5 ):
                return bool( val )
    except Exception as exc:
        return False

results				= []
try:
    if not failure:
        results			= [
            ( ROUTE,	True,	write( ROUTE, 11 )),
            ( False,	True,	write( False, 12 )),
            ( '1/0',	False,	write( '1/0', 13 )),
        ]
finally:
    control.control['done']	= True
    server.join( 5 )

if failure:
    print( "enip.main --route-path %s: expected the simulator to start; observed %s" % ( ROUTE, failure[0] ))
    print( "DEFECT: the documented multi-segment --route-path is refused at start-up" )
    sys.exit( 1 )
bad				= [ r for r in results if r[1] != r[2] ]
for rp,expect,got in results:
    print( "configured %s, request route path %-20r: expected %s, observed %s" % (
        ROUTE, rp, "served" if expect else "refused", "served" if got else "refused" ))
if bad:
    print( "DEFECT" )
    sys.exit( 1 )
print( "OK" )
