"""C15 defect 2: client.unconnected_send judges a *textual* route path by the truth value of its text.

A route path may be given as text ( '1/0', '[{"port":1,"link":0}]', and the JSON scalars '0' / 'false' / '[]' that
denote "no route path" -- client.main passes --route-path through exactly like that ).  unconnected_send does

        if route_path:
            route_path = device.parse_route_path( route_path )
            assert send_path or send_path is None, "Must supply a send_path ..., if route_path supplied"

ie. the assertion that belongs to a (non-empty) route path is evaluated as soon as the *text* is non-empty:
route_path='false' (or '0', '[]') together with send_path='' -- the documented way to address a simple,
non-routing device -- is refused with an AssertionError, whereas the same request with route_path=False
(or 0, or []) is sent as a bare request.

Expected: for each spelling of "no route path" together with send_path='' the same frame as for route_path=False.
Observed: AssertionError for the textual spellings.
"""
from __future__ import print_function
import sys, logging

from cpppo.server.enip import logix, client

logging.basicConfig( level=logging.CRITICAL )


class wire_client( client.client ):
    """A client that keeps the frames it would have transmitted"""
    def __init__( self ):
        self.session	= 0x1234
        self.profiler	= None
        self.dialect	= logix.Logix
        self.sent	= []

    def send( self, request, timeout=None ):
        self.sent.append( bytes( request ))


def frame( route_path ):
    cli			= wire_client()
    cli.read( 'T[0]', offset=None, route_path=route_path, send_path='' )
    return cli.sent[-1]


reference		= frame( False )
failures		= []
for spelling in ( 0, [], 'false', '0', '[]' ):
    try:
        got		= frame( spelling )
    except Exception as exc:
        failures.append( "route_path=%-8r send_path='': expected the bare request; observed %s: %s" % (
            spelling, type( exc ).__name__, exc ))
        continue
    if got != reference:
        failures.append( "route_path=%-8r send_path='': expected the bare request %r; observed %r" % (
            spelling, reference, got ))

for f in failures:
    print( f )
if failures:
    print( "DEFECT: %d spellings of 'no route path' are not accepted together with an empty send path" % len( failures ))
    sys.exit( 1 )
print( "OK: every spelling of 'no route path' yields the bare request" )
