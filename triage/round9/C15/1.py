"""C15 defect 1: the client front-ends ignore an empty --send-path.

The epilog and the option help of `python -m cpppo.server.enip.client` say that

    --send-path='' --route-path=false

eliminates the *Logix-style Unconnected Send (service 0x52) encapsulation ("Specify an empty string '' for no
Send Path"), which is what a simple, non-routing device needs.  client.main (and get_attribute.main, poll.main,
which carry the same expression) compute

    send_path = args.send_path if args.send_path else '' if args.simple else None

so the empty string is taken for "not given" and becomes None, ie. the default '@6/1': the request still goes
out wrapped in an Unconnected Send to the Connection Manager (with an empty route path).

Here a simulator is started in-process, and the request frames it receives are recorded.  Expected: with
--send-path='' --route-path=false the frame carries the bare request (first octet of the CPF data item is the
Read Tag service 0x4C), exactly as with -S/--simple.  Observed: it starts with 0x52 0x02 0x20 0x06 0x24 0x01.
"""
from __future__ import print_function
import sys, time, socket, struct, threading, logging

import cpppo
from cpppo.server.enip import logix, client
from cpppo.server.enip.main import main as enip_main

PORT				= 44818
frames				= []

def recording_process( addr, data, **kwds ):
    if 'request.enip.input' in data:
        frames.append( bytes( bytearray( data.request.enip.input )))
    return logix.process( addr, data=data, **kwds )

control				= cpppo.dotdict()
control.control			= cpppo.apidict( timeout=1.0 )
control.control['done']		= False
server				= threading.Thread( target=enip_main, kwargs=dict(
    argv=[ '--no-config', '--no-udp', '--address', 'localhost:%d' % PORT, 'T=INT[4]' ],
    server=control, enip_process=recording_process ))
server.daemon			= True
server.start()
for _ in range( 100 ):
    try:
        socket.create_connection( ('localhost', PORT), timeout=.1 ).close()
        break
    except Exception:
        time.sleep( .1 )

def first_octets( argv ):
    """Run the client front-end; return the leading octets of the CPF data item of its SendRRData request"""
    del frames[:]
    rc				= client.main( [ '--address', 'localhost:%d' % PORT ] + argv + [ 'T[0]' ] )
    assert rc == 0, "client.main %r failed: %r" % ( argv, rc )
    for frm in frames:
        if len( frm ) > 16 and struct.unpack( '<H', frm[6:8] )[0] == 2:	# interface, timeout, CPF count == 2
            return frm[16:22]
    raise AssertionError( "No SendRRData seen for %r" % ( argv, ))

try:
    simple			= first_octets( [ '-S' ] )
    documented			= first_octets( [ '--send-path', '', '--route-path', 'false' ] )
finally:
    control.control['done']	= True
    server.join( 5 )

print( "-S                               : data item begins %s" % ' '.join( '%02x' % b for b in bytearray( simple )))
print( "--send-path='' --route-path=false: data item begins %s" % ' '.join( '%02x' % b for b in bytearray( documented )))
if bytearray( documented )[0] == 0x52:
    print( "DEFECT: expected the bare request (0x4c ...) as documented; observed an Unconnected Send (0x52) to @6/1" )
    sys.exit( 1 )
print( "OK: an empty --send-path with --route-path=false eliminates the Unconnected Send encapsulation" )
