"""C15 defect 4: the gateway's route table does not tell a numeric link from an address link.

The route table is keyed by the text "<port>/<link>" ( UCMM.__init__ ), and UCMM.request looks the first
segment of a request's route path up by formatting it the same way ( find_route: "{port}/{link}".format( **seg ) ).
A port segment with the one-octet numeric link 2 and a port segment with the *address* link "2" ( a counted
string, the encoding used for IP addresses ) are different segments, but both format to "1/2".

Here a gateway is configured with its own route path 1/0 and the route 1/2 --> target ( numeric link 2, as
port_link() understands "1/2" ).  A request whose route path is port 1, link address "2" names neither the
gateway itself nor a configured route.

Expected: refused ( EtherNet/IP status 0x08, like the route path 1/3 ), nothing forwarded, no tag written.
Observed: forwarded to the route target, which serves it: the target's tag is written.
"""
from __future__ import print_function
import os, sys, time, socket, subprocess, logging

import cpppo
from cpppo.server import enip
from cpppo.server.enip import logix, device, ucmm, client, parser

logging.basicConfig( level=logging.CRITICAL )
TARGET				= 44819


class wire_client( client.client ):
    """A client that keeps the frames it would have transmitted"""
    def __init__( self ):
        self.session	= 0x1234
        self.profiler	= None
        self.dialect	= logix.Logix
        self.sent	= []

    def send( self, request, timeout=None ):
        self.sent.append( bytes( request ))


def frame( segments, value ):
    """An Unconnected Send to @6/1 w/ exactly these route path segments, carrying Write Tag T[0] = value"""
    cli			= wire_client()
    req			= cli.write( 'T[0]', [ value ], offset=None, send=False )
    req.input		= bytearray( logix.Logix.produce( req ))
    cip			= cpppo.dotdict()
    cip.send_data	= {}
    sd			= cip.send_data
    sd.interface	= 0
    sd.timeout		= 8
    sd.CPF		= {}
    sd.CPF.item		= [ cpppo.dotdict(), cpppo.dotdict() ]
    sd.CPF.item[0].type_id = 0x00
    sd.CPF.item[1].type_id = 0xb2
    sd.CPF.item[1].unconnected_send = {}
    us			= sd.CPF.item[1].unconnected_send
    us.service		= 0x52
    us.status		= 0
    us.priority		= 5
    us.timeout_ticks	= 60				# ~2s
    us.path		= { 'segment': [ cpppo.dotdict( s ) for s in device.parse_path( '@6/1' ) ] }
    us.route_path	= { 'segment': [ cpppo.dotdict( s ) for s in segments ] }
    us.request		= req
    cli.cip_send( cip=cip )
    return cli.sent[-1]


def gateway_transact( kwds, segments, value ):
    data		= cpppo.dotdict()
    source		= cpppo.chainable( frame( segments, value ))
    with enip.enip_machine( context='enip' ) as machine:
        for m,s in machine.run( source=source, data=data ):
            pass
    req			= cpppo.dotdict()
    req.request		= data
    logix.process( ('127.0.0.1', 12345), data=req, **kwds )
    return req.response.enip.status


def target_value():
    """Read T[0] directly from the route target"""
    with client.connector( host='localhost', port=TARGET, timeout=5 ) as conn:
        ops		= client.parse_operations( [ 'T[0]' ], route_path=[], send_path='' )
        for idx,dsc,op,rpy,sts,val in conn.synchronous( operations=ops, timeout=5 ):
            return val[0]


# The route target: a separate simulator process (its own CIP Object directory)
env			= dict( os.environ )
target			= subprocess.Popen(
    [ sys.executable, '-m', 'cpppo.server.enip', '--no-config', '--no-udp',
      '--address', 'localhost:%d' % TARGET, 'T=INT[4]' ],
    env=env, stdout=subprocess.PIPE, stderr=subprocess.STDOUT )
try:
    for _ in range( 150 ):
        try:
            socket.create_connection( ('localhost', TARGET), timeout=.1 ).close()
            break
        except Exception:
            time.sleep( .1 )
    else:
        raise AssertionError( "route target simulator did not start" )

    # The gateway: in-process; its own address is 1/0, and 1/2 (numeric link 2) is routed to the target
    device.lookup_reset()
    logix.setup_reset()
    tags		= cpppo.dotdict()
    entry		= cpppo.dotdict()
    entry.attribute	= device.Attribute( 'T', parser.INT, default=[ 1, 2, 3, 4 ] )
    entry.path		= None
    entry.error		= 0
    dict.__setitem__( tags, 'T', entry )
    kwds		= dict(
        tags		= tags,
        UCMM_class	= type( 'UCMM', (ucmm.UCMM,), {
            'route_path':	device.parse_route_path( '1/0' ),
            'route':		{ '1/2': 'localhost:%d' % TARGET },
        } ))
    gateway		= logix.setup( **kwds )
    assert gateway.route == { '1/2': ('localhost', TARGET) }, gateway.route

    results		= []
    # control: numeric link 2 is the route; numeric link 3 and address link "3" are nobody
    for name,segments,value,forwarded in (
            ( 'port 1, numeric link 2',		[ { 'port': 1, 'link': 2 } ],	21,	True ),
            ( 'port 1, numeric link 3',		[ { 'port': 1, 'link': 3 } ],	22,	False ),
            ( 'port 1, address link "3"',	[ { 'port': 1, 'link': '3' } ],	23,	False ),
            ( 'port 1, address link "2"',	[ { 'port': 1, 'link': '2' } ],	24,	False ),
    ):
        before		= target_value()
        status		= gateway_transact( kwds, segments, value )
        after		= target_value()
        results.append( ( name, forwarded, status, before, after, value ))
finally:
    target.terminate()
    target.wait()

defect			= False
for name,forwarded,status,before,after,value in results:
    if forwarded:
        good		= status == 0 and after == value
        expect		= "forwarded: status 0x00, target T[0] == %d" % value
    else:
        good		= status != 0 and after == before
        expect		= "refused: status != 0, target T[0] stays %d" % before
    print( "%-26s expected %-48s observed status 0x%02x, target T[0] == %d%s" % (
        name + ':', expect + ';', status, after, '' if good else '   <== WRONG' ))
    defect		= defect or not good
if defect:
    print( "DEFECT: a route path segment with an address link is dispatched by the route table entry of the numeric link spelled alike" )
    sys.exit( 1 )
print( "OK" )
