"""C15 defect 5: a request without a route path is refused by every personality when its service is
Read Tag Fragmented -- and therefore also every Read Tag Fragmented that a gateway forwards over its last hop.

"Any 'Simple' (non route_path encapsulated) request will be allowed by any device" ( ucmm.py; README: 'incoming
"Simple" requests to a ... simulator configured with a route path *will be accepted*' ).  But the CPF data item
of a SendRRData is parsed by parser.unconnected_send, which takes *every* item that begins with 0x52 for an
Unconnected Send ( slct[0x52] = usnd ): a bare Read Tag Fragmented ( also service 0x52 )

    52 <path> <elements UINT> <offset UDINT>

is read as an Unconnected Send to the send path <path>, priority/ticks = elements, carrying a message of
( offset & 0xFFFF ) octets and a route path of ( offset >> 16 ) & 0xFF words.  With offset 0 this is an
Unconnected Send carrying an empty message, which the UCMM hands to the Object the tag lives in and then
( rightly ) reports as unanswered: EtherNet/IP status 0x08, session closed.

The gateway described in the README strips the Unconnected Send when the last route path segment is consumed
( "forwarded as a Simple CIP request" ), so `client.connector.read( 'T[0-1]', route_path='1/2' )` -- Read Tag
Fragmented is what .read issues by default -- fails with status 0x65 through a gateway whose route 1/2 leads to
a cpppo simulator, while the same read as plain Read Tag succeeds.

Expected: for each personality ( none, simple, route path 1/0 ) the bare Read Tag Fragmented T[0-1] is served
like the bare Read Tag T[0-1]: EtherNet/IP status 0, CIP status 0, data [1, 2].
Observed: EtherNet/IP status 0x08 and no reply for Read Tag Fragmented.
"""
from __future__ import print_function
import sys, logging

import cpppo
from cpppo.server import enip
from cpppo.server.enip import logix, device, ucmm, client, parser

logging.basicConfig( level=logging.CRITICAL )


class wire_client( client.client ):
    """A client that keeps the frames it would have transmitted"""
    def __init__( self ):
        self.session	= 0x1234
        self.profiler	= None
        self.dialect	= logix.Logix
        self.sent	= []

    def send( self, request, timeout=None ):
        self.sent.append( bytes( request ))


def configure( route_path ):
    device.lookup_reset()
    logix.setup_reset()
    kwds		= {}
    if route_path != 'ANY':
        kwds['UCMM_class'] = type( 'UCMM', (ucmm.UCMM,), { 'route_path': device.parse_route_path( route_path ) } )
    tags		= cpppo.dotdict()
    entry		= cpppo.dotdict()
    entry.attribute	= device.Attribute( 'T', parser.INT, default=[ 1, 2, 3, 4 ] )
    entry.path		= None
    entry.error		= 0
    dict.__setitem__( tags, 'T', entry )
    kwds['tags']	= tags
    return kwds


def bare_read( kwds, fragmented ):
    """Issue a bare (no route path, no send path) Read Tag [Fragmented] T[0-1]; returns (enip status, CIP status, data)"""
    cli			= wire_client()
    cli.read( 'T[0-1]', offset=0 if fragmented else None, route_path=False, send_path='' )
    data		= cpppo.dotdict()
    source		= cpppo.chainable( cli.sent[-1] )
    with enip.enip_machine( context='enip' ) as machine:
        for m,s in machine.run( source=source, data=data ):
            pass
    req			= cpppo.dotdict()
    req.request		= data
    logix.process( ('127.0.0.1', 12345), data=req, **kwds )
    rsp			= req.response
    if rsp.enip.status != 0 or not rsp.enip.get( 'input' ):
        return rsp.enip.status, None, None
    rpy			= cpppo.dotdict()
    rpy.enip		= cpppo.dotdict( rsp.enip )
    rpy.enip.pop( 'CIP', None )
    with parser.CIP() as machine:
        for m,s in machine.run( path='enip', source=cpppo.peekable( rsp.enip.input ), data=rpy ):
            pass
    inner		= cpppo.dotdict()
    with logix.Logix.parser as machine:
        for m,s in machine.run(
                source=cpppo.peekable( rpy.enip.CIP.send_data.CPF.item[1].unconnected_send.request.input ),
                data=inner ):
            pass
    return rsp.enip.status, inner.get( 'status' ), inner.get( 'read_frag.data' if fragmented else 'read_tag.data' )


defect			= False
for personality in ( 'ANY', 'false', '1/0' ):
    for fragmented in ( False, True ):
        kwds		= configure( personality )
        try:
            observed	= bare_read( kwds, fragmented )
        except Exception as exc:
            observed	= ( "%s: %s" % ( type( exc ).__name__, exc ), None, None )
        good		= observed == ( 0, 0, [ 1, 2 ] )
        print( "personality %-6s bare %-22s T[0-1]: expected (0, 0, [1, 2]); observed %r%s" % (
            personality, "Read Tag Fragmented" if fragmented else "Read Tag", observed, '' if good else '   <== WRONG' ))
        defect		= defect or not good
if defect:
    print( "DEFECT: a bare Read Tag Fragmented (service 0x52) is taken for an Unconnected Send and refused" )
    sys.exit( 1 )
print( "OK" )
