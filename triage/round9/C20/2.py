#!/usr/bin/env python
"""tnetstrings.dump_dict mangles byte-string dictionary keys under Python 3.

The module says "we deal in bytes only", dump()'s docstring says dictionary keys "must be simple
'ascii' encoded (non-multibyte, 7-bit clean)", and parse_dict insists that a key on the wire is a
byte string (',').  A caller who therefore supplies ascii-encoded byte-string keys gets each key
passed through str( k ): under Python 3 that is the *repr*, so { b'abc': 1 } goes onto the wire with
the 6-octet key  b'abc'  (including the b and the quotes), and comes back as { "b'abc'": 1 }.
No error is raised; the key is silently different.

Expected: the key's octets go onto the wire unchanged ( 3:abc, ) -- the same wire form as for the
text key 'abc' -- or dump refuses the key.  Observed: 6:b'abc',
"""
from __future__ import print_function
import sys

from cpppo.server import tnetstrings

value				= { b'abc': 1, b'x': [ { b'in': None } ] }
expect_wire			= tnetstrings.dump( { 'abc': 1, 'x': [ { 'in': None } ] } )
try:
    wire			= tnetstrings.dump( value )
except ( AssertionError, TypeError ) as exc:
    print( "dump refuses byte-string keys: %r" % ( exc, ))
    sys.exit( 0 )						# refusing would be acceptable
back,remain			= tnetstrings.parse( wire )
ok				= ( wire == expect_wire and remain == b''
                                    and back == { 'abc': 1, 'x': [ { 'in': None } ] } )
if not ok:
    print( "CONTRADICTION: dump( %r )" % ( value, ))
    print( "  observed wire: %r" % ( wire, ))
    print( "  expected wire: %r" % ( expect_wire, ))
    print( "  observed parse( dump( v )): %r" % ( back, ))
    print( "  expected keys 'abc', 'x', 'in' (parse_dict always returns ascii-decoded text keys)" )
sys.exit( 0 if ok else 1 )
