#!/usr/bin/env python
"""tnetraw.tnet_from (the non-automata sibling of tnet.tnet_from, same interface) never ends when the
peer closes the connection in the middle of a payload: it spins at 100% CPU.

In the payload loop an EOF ( recv() == b'' ) is appended to the payload and the variable is then
re-set to None, so the `c == b''` test behind the loop is never reached and the loop condition
( c is None and len( payload ) < length ) stays true for ever; recv() returns b'' immediately on
every pass.  An EOF while reading the size or the type symbol does end the generator, and so does
tnet.tnet_from in all three places.

Input:  b'5:hello,' b'5:hel' then close.   Expected: b'hello' is yielded and the generator ends
( as tnet.tnet_from does ).   Observed: b'hello' is yielded, then the generator never returns.
"""
from __future__ import print_function
import os
import socket
import sys
import threading

from cpppo.server import tnet, tnetraw

def run( module ):
    ours,peer			= socket.socketpair()
    peer.sendall( b'5:hello,5:hel' )
    peer.shutdown( socket.SHUT_WR )
    got				= []
    def reader():
        for msg in module.tnet_from( ours, ( 'peer', 0 )):
            got.append( msg )
        got.append( 'ended' )
    thr				= threading.Thread( target=reader )
    thr.daemon			= True
    thr.start()
    thr.join( 5.0 )
    return got, thr.is_alive()

got_dfa,hung_dfa		= run( tnet )
got_raw,hung_raw		= run( tnetraw )
print( "tnet.tnet_from:    %r, %s" % ( got_dfa, "STILL RUNNING after 5s" if hung_dfa else "ended" ))
print( "tnetraw.tnet_from: %r, %s" % ( got_raw, "STILL RUNNING after 5s" if hung_raw else "ended" ))
bad				= hung_raw or hung_dfa or got_raw != got_dfa
if bad:
    print( "CONTRADICTION: expected both to yield b'hello' and end at the peer's EOF" )
sys.stdout.flush()
os._exit( 1 if bad else 0 )			# a spinning daemon thread must not keep us alive
