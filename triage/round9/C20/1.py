#!/usr/bin/env python
"""tnetstrings: "no encoding" crashes on text, although it is documented and is the helpers' default.

parse()'s docstring: "If no encoding supplied, all character data in payload is returned as bytes."
dump_list / dump_dict / parse_list / parse_dict are public and declare encoding=None as their default.

Observed on the unchanged code (Python 3): every one of them raises TypeError as soon as a text
('$') element is met, because None is handed to str.encode() / bytes.decode() as the codec name.
Expected: parse( ..., encoding=None ) returns the text's octets as bytes (as documented), and the
helpers called with their own defaults either do the same or behave like dump() / parse() do by
default (utf-8), so that  parse_list( <payload of dump_list( v )> ) == v.
"""
from __future__ import print_function
import sys

from cpppo.server import tnetstrings

text				= u'caf\xe9'
octets				= text.encode( 'utf-8' )
problems			= []

def attempt( what, func, acceptable ):
    try:
        got			= func()
    except Exception as exc:
        problems.append( "%s: raised %r; expected one of %r" % ( what, exc, acceptable ))
        return
    if got not in acceptable:
        problems.append( "%s: returned %r; expected one of %r" % ( what, got, acceptable ))

wire				= tnetstrings.dump( text )			# b'5:caf\xc3\xa9$'
attempt( "parse( %r, encoding=None )" % ( wire, ),
         lambda: tnetstrings.parse( wire, encoding=None ),
         [ ( octets, b'' ) ] )							# documented: bytes
lwire				= tnetstrings.dump( [ text, 1 ] )
attempt( "parse( %r, encoding=None )" % ( lwire, ),
         lambda: tnetstrings.parse( lwire, encoding=None ),
         [ ( [ octets, 1 ], b'' ) ] )
attempt( "parse_list( %r )" % ( wire, ),
         lambda: tnetstrings.parse_list( wire ),
         [ [ octets ], [ text ] ] )
attempt( "parse_dict( b'1:k,' + %r )" % ( wire, ),
         lambda: tnetstrings.parse_dict( b'1:k,' + wire ),
         [ { 'k': octets }, { 'k': text } ] )
attempt( "dump_list( [ %r ] )" % ( text, ),
         lambda: tnetstrings.dump_list( [ text ] ),
         [ tnetstrings.dump( [ text ] ), tnetstrings.dump( [ octets ] ) ] )
attempt( "dump_dict( { 'k': %r } )" % ( text, ),
         lambda: tnetstrings.dump_dict( { 'k': text } ),
         [ tnetstrings.dump( { 'k': text } ), tnetstrings.dump( { 'k': octets } ) ] )

for p in problems:
    print( "CONTRADICTION:", p )
sys.exit( 1 if problems else 0 )
