#!/usr/bin/env python
"""tnetstrings: "nested to any depth" ends at a few hundred levels.

dump() spends three Python frames per level ( dump -> dump_list -> its generator ), parse() two, so
with the interpreter's default recursion limit (1000) a list nested ~335 deep cannot be serialised
and one nested ~500 deep cannot be parsed: RecursionError.  The wire form of such a value is tiny
( 340 levels: under 2 kB ) and any other tnetstring implementation may send it; neither function
documents a depth limit.

Expected: parse( dump( v )) == v for a 400-deep (and a 2000-deep) list.  Observed: RecursionError.
"""
from __future__ import print_function
import sys

from cpppo.server import tnetstrings

def nest( depth ):
    v				= []
    for _ in range( depth ):
        v			= [ v ]
    return v

def wire( depth ):
    w				= b'0:]'
    for _ in range( depth ):
        w			= ( '%d:' % len( w )).encode( 'ascii' ) + w + b']'
    return w

def depth_of( v ):
    d				= 0
    while v:
        assert type( v ) is list and len( v ) == 1
        v			= v[0]
        d		       += 1
    return d

problems			= []
for depth in ( 100, 400, 2000 ):
    try:
        w			= tnetstrings.dump( nest( depth ))
        if w != wire( depth ):
            problems.append( "dump of a %d-deep list: wrong wire form" % depth )
    except RuntimeError as exc: # RecursionError
        problems.append( "dump of a %d-deep list: %s: %s" % ( depth, type( exc ).__name__, exc ))
    try:
        v,remain		= tnetstrings.parse( wire( depth ))
        if remain != b'' or depth_of( v ) != depth:
            problems.append( "parse of a %d-deep list (%d octets): wrong value" % ( depth, len( wire( depth ))))
    except RuntimeError as exc:
        problems.append( "parse of a %d-deep list (%d octets): %s: %s" % (
            depth, len( wire( depth )), type( exc ).__name__, exc ))
for p in problems:
    print( "CONTRADICTION:", p )
sys.exit( 1 if problems else 0 )
