#!/usr/bin/env python
"""C14 defect 2: a Forward Open whose connection path carries no application path that the simulator
recognizes (only port segments, eg. "port 1, link 0"; or port segment + Electronic Key segment + @2/1,
as RSLinx-style originators send) is accepted with status 0 -- but then every request on that
connection is answered with EtherNet/IP encapsulation status 0x08 and no CIP reply, and the TCP
session is dropped.  Either the Forward Open is refused with a CIP error status, or the connection
it granted serves requests (as it does for requests on a connection ID it doesn't know at all).

Connection_Manager.request: `while targetpath.path and hasattr( targetpath.path.segment[0], 'port' )`
pops the port segments; .path (a dotdict that still holds 'segment': [] / 'size') stays truthy, and
.segment[0] of the emptied list raises IndexError.
"""
from __future__ import print_function
import logging
import socket
import struct
import sys
import threading
import time

import cpppo
from cpppo.server import enip
from cpppo.server.enip import device
from cpppo.server.enip.main import main as enip_main

PORT				= 44818

def start_server( tags, port=PORT, extra=() ):
    enip.lookup_reset()
    control			= cpppo.apidict( enip.timeout, { 'done': False } )
    kwargs			= dict(
        argv	= [ '--no-config', '--no-udp', '--address', 'localhost:%d' % port ] + list( extra ) + list( tags ),
        server	= { 'control': control } )
    thread			= threading.Thread( target=enip_main, kwargs=kwargs )
    thread.daemon		= True
    thread.start()
    for _ in range( 100 ):
        try:
            s			= socket.create_connection( ('localhost', port), timeout=.5 )
        except Exception:
            time.sleep( .1 )
            continue
        # One List Interfaces round trip; the simulator sets its tags up with the first request
        s.settimeout( 5 )
        s.sendall( struct.pack( '<HHII8sI', 0x0064, 0, 0, 0, b'setup000', 0 ))
        s.recv( 1024 )
        s.close()
        return control,thread
    raise RuntimeError( "simulator did not start" )


class Ref( object ):
    """A minimal reference EtherNet/IP CIP originator, written from the specification tables (CIP
    Vol 1 ch. 3, Vol 2 ch. 2, Logix5000 Data Access); shares no code with cpppo."""
    def __init__( self, host='localhost', port=PORT, timeout=5.0 ):
        self.s			= socket.create_connection( (host, port), timeout=timeout )
        self.session		= 0
        self.seq		= 0
        self.ot_id		= None		# O->T Network Connection ID (chosen by the target)
        self.to_id		= None		# T->O Network Connection ID (chosen by us, the originator)
        self.conn_serial	= 0x1234
        self.vendor		= 0x1337
        self.o_serial		= 0x42424242

    def close( self ):
        try:
            self.s.close()
        except Exception:
            pass

    def recv_exact( self, n ):
        buf			= b''
        while len( buf ) < n:
            d			= self.s.recv( n - len( buf ))
            if not d:
                raise EOFError( "connection closed by simulator after %d of %d bytes" % ( len( buf ), n ))
            buf		       += d
        return buf

    def encap( self, command, payload, context=b'refctx01' ):
        return struct.pack( '<HHII8sI', command, len( payload ), self.session, 0, context, 0 ) + payload

    def recv_frame( self ):
        command,length,session,status,context,options \
				= struct.unpack( '<HHII8sI', self.recv_exact( 24 ))
        body			= self.recv_exact( length ) if length else b''
        return dict( command=command, length=length, session=session, status=status,
                     context=context, options=options, body=body )

    def transact( self, command, payload, context=b'refctx01' ):
        self.s.sendall( self.encap( command, payload, context ))
        return self.recv_frame()

    def register( self ):
        r			= self.transact( 0x0065, struct.pack( '<HH', 1, 0 ))
        assert r['command'] == 0x0065 and r['status'] == 0 and r['session'], "Register Session failed: %r" % r
        self.session		= r['session']

    def rr_data( self, cip ):
        """SendRRData: NULL address item + unconnected data item --> encapsulation reply, CIP reply"""
        payload			= struct.pack( '<IH', 0, 5 ) + struct.pack( '<HHHHH', 2, 0x0000, 0, 0x00B2, len( cip )) + cip
        r			= self.transact( 0x006F, payload )
        if r['status'] != 0 or not r['body']:
            return r,None
        b			= r['body']
        iface,timo,count,t0,l0,t1,l1 = struct.unpack_from( '<IHHHHHH', b, 0 )
        assert ( count, t0, l0, t1 ) == ( 2, 0x0000, 0, 0x00B2 ) and 16 + l1 == len( b ), "Bad SendRRData reply: %r" % r
        return r,b[16:]

    def unit_data( self, cip ):
        """SendUnitData: connected address item + connected data item --> encapsulation reply, CIP reply"""
        self.seq		= ( self.seq + 1 ) & 0xFFFF
        payload			= struct.pack( '<IH', 0, 0 ) + struct.pack( '<HHHI', 2, 0x00A1, 4, self.ot_id ) \
                                  + struct.pack( '<HHH', 0x00B1, len( cip ) + 2, self.seq ) + cip
        r			= self.transact( 0x0070, payload )
        if r['status'] != 0 or not r['body']:
            return r,None
        b			= r['body']
        iface,timo,count,t0,l0,cid,t1,l1,seq = struct.unpack_from( '<IHHHHIHHH', b, 0 )
        assert ( count, t0, l0, t1 ) == ( 2, 0x00A1, 4, 0x00B1 ) and 20 + l1 == len( b ), "Bad SendUnitData reply: %r" % r
        r['connection_id']	= cid
        r['sequence']		= seq
        return r,b[22:]

    @staticmethod
    def sym( name ):
        n			= name.encode( 'iso-8859-1' )
        return b'\x91' + struct.pack( 'B', len( n )) + n + ( b'\x00' if len( n ) % 2 else b'' )

    @staticmethod
    def elem( i ):
        if i < 256:
            return struct.pack( '<BB', 0x28, i )
        if i < 65536:
            return struct.pack( '<BBH', 0x29, 0, i )
        return struct.pack( '<BBI', 0x2A, 0, i )

    @staticmethod
    def logical( cls, ins ):
        return struct.pack( '<BBBB', 0x20, cls, 0x24, ins )

    @staticmethod
    def req( service, path, data=b'' ):
        assert len( path ) % 2 == 0
        return struct.pack( '<BB', service, len( path ) // 2 ) + path + data

    def tagpath( self, tag, index=None ):
        p			= b''.join( self.sym( t ) for t in tag.split( '.' ))
        if index is not None:
            p		       += self.elem( index )
        return p

    def read_tag( self, tag, index=None, elements=1 ):
        return self.req( 0x4C, self.tagpath( tag, index ), struct.pack( '<H', elements ))

    def multi( self, reqs ):
        offs,o			= [],2 + 2 * len( reqs )
        for r in reqs:
            offs.append( o )
            o		       += len( r )
        return self.req( 0x0A, self.logical( 0x02, 1 ),
                         struct.pack( '<H', len( reqs )) + b''.join( struct.pack( '<H', o ) for o in offs ) + b''.join( reqs ))

    def unconnected_send( self, cip, route=b'\x01\x00' ):
        data			= struct.pack( '<BBH', 0x0A, 0x0E, len( cip )) + cip + ( b'\x00' if len( cip ) % 2 else b'' ) \
                                  + struct.pack( 'BB', len( route ) // 2, 0 ) + route
        return self.req( 0x52, self.logical( 0x06, 1 ), data )

    @staticmethod
    def parse_reply( cip ):
        svc,rsv,sts,extsz	= struct.unpack_from( '<BBBB', cip, 0 )
        ext			= list( struct.unpack_from( '<%dH' % extsz, cip, 4 ))
        return dict( service=svc, reserved=rsv, status=sts, ext=ext, data=cip[4+2*extsz:] )

    def forward_open( self, conn_path=None, size=500, to_id=0x20000001, ot_id=0x20000002,
                      ot_rpi=0x00201234, to_rpi=0x00204001 ):
        """Forward Open (0x54) to the Connection Manager, class 3 explicit messaging connection."""
        if conn_path is None:
            conn_path		= b'\x01\x00' + self.logical( 0x02, 1 )	# backplane, slot 0; Message Router
        ncp			= struct.pack( '<H', 0x4200 | size )		# P2P, low priority, variable
        data			= struct.pack( '<BBIIHHIBBBB', 0x0A, 0x0E, ot_id, to_id, self.conn_serial, self.vendor,
                                               self.o_serial, 3, 0, 0, 0 ) \
                                  + struct.pack( '<I', ot_rpi ) + ncp + struct.pack( '<I', to_rpi ) + ncp \
                                  + b'\xA3' + struct.pack( 'B', len( conn_path ) // 2 ) + conn_path
        r,cip			= self.rr_data( self.req( 0x54, self.logical( 0x06, 1 ), data ))
        assert cip is not None, "No reply to Forward Open: %r" % r
        rp			= self.parse_reply( cip )
        if rp['status'] == 0:
            ot,to,cs,ov,os_,otapi,toapi,appsz,rsv = struct.unpack_from( '<IIHHIIIBB', rp['data'], 0 )
            rp.update( ot=ot, to=to, cs=cs, ov=ov, os=os_, otapi=otapi, toapi=toapi, appsz=appsz )
            self.ot_id,self.to_id= ot,to
        return rp

    def forward_close( self, conn_path=None ):
        if conn_path is None:
            conn_path		= b'\x01\x00' + self.logical( 0x02, 1 )
        data			= struct.pack( '<BBHHI', 0x0A, 0x0E, self.conn_serial, self.vendor, self.o_serial ) \
                                  + struct.pack( 'BB', len( conn_path ) // 2, 0 ) + conn_path
        r,cip			= self.rr_data( self.req( 0x4E, self.logical( 0x06, 1 ), data ))
        assert cip is not None, "No reply to Forward Close: %r" % r
        return self.parse_reply( cip )


def attempt( name, conn_path ):
    c				= Ref()
    try:
        c.register()
        fo			= c.forward_open( conn_path=conn_path )
        if fo['status'] != 0:
            print( "%-24s: Forward Open refused, status 0x%02x %r: fine" % ( name, fo['status'], fo['ext'] ))
            return True
        try:
            r,cip		= c.unit_data( c.read_tag( 'D', 3, 1 ))
        except EOFError as exc:
            print( "%-24s: Forward Open accepted; connected Read Tag: %s" % ( name, exc ))
            return False
        if cip is None:
            print( "%-24s: Forward Open accepted; connected Read Tag: encapsulation status 0x%02x, no CIP reply" % (
                name, r['status'] ))
            return False
        rp			= c.parse_reply( cip )
        print( "%-24s: Forward Open accepted; connected Read Tag: CIP status 0x%02x, data %r" % (
            name, rp['status'], rp['data'] ))
        return rp['status'] == 0 and rp['data'] == struct.pack( '<Hi', 0x00C4, 33 )
    finally:
        c.close()


def main():
    control,thread		= start_server( [ 'D=DINT[10]' ] )
    try:
        device.lookup( *device.resolve_tag( 'D' ))[0:10] = [ i * 11 for i in range( 10 ) ]
        key			= b'\x34\x04' + struct.pack( '<HHHBB', 0, 0, 0, 0, 0 )	# Electronic Key segment, all "don't care"
        results			= [
            attempt( "port 1/0 + @2/1",		b'\x01\x00' + Ref.logical( 0x02, 1 )),
            attempt( "port 1/0 only",		b'\x01\x00' ),
            attempt( "port 1/0 + key + @2/1",	b'\x01\x00' + key + Ref.logical( 0x02, 1 )),
        ]
        if not all( results ):
            print( "DEFECT: a Forward Open was accepted, but the connection it granted is answered with an encapsulation error / dropped session; "
                   "expected either a refused Forward Open, or D[3] == 33 over the connection" )
            return 1
        print( "OK" )
        return 0
    finally:
        control['done']		= True
        thread.join( 10 )


if __name__ == "__main__":
    logging.getLogger().setLevel( logging.ERROR )
    sys.exit( main() )
