#!/usr/bin/env python
"""C14 defect 5: a tag whose name begins with the complete name of another tag cannot be reached.

The simulator is given the tags  A=DINT[4]  and  A.B=INT[4]  (and sets both up without complaint;
each gets its own Attribute).  A client addresses "A.B[1]" as the specification says: two ANSI
Extended Symbolic segments "A", "B" and an element segment.  device.resolve() looks the name up
after every symbolic segment and stops extending it with the first hit ("A"), then finds no tag
"B": Read Tag and Write Tag of A.B are answered 0x05 (Request Path destination unknown), with
pylogix and with the reference encoder alike; A.B is a tag of the simulator that no client can
read or write.  (Without the tag A, A.B is served.)
"""
from __future__ import print_function
import logging
import socket
import struct
import sys
import threading
import time

import cpppo
from cpppo.server import enip
from cpppo.server.enip import device
from cpppo.server.enip.main import main as enip_main

PORT				= 44818

def start_server( tags, port=PORT, extra=() ):
    enip.lookup_reset()
    control			= cpppo.apidict( enip.timeout, { 'done': False } )
    kwargs			= dict(
        argv	= [ '--no-config', '--no-udp', '--address', 'localhost:%d' % port ] + list( extra ) + list( tags ),
        server	= { 'control': control } )
    thread			= threading.Thread( target=enip_main, kwargs=kwargs )
    thread.daemon		= True
    thread.start()
    for _ in range( 100 ):
        try:
            s			= socket.create_connection( ('localhost', port), timeout=.5 )
        except Exception:
            time.sleep( .1 )
            continue
        # One List Interfaces round trip; the simulator sets its tags up with the first request
        s.settimeout( 5 )
        s.sendall( struct.pack( '<HHII8sI', 0x0064, 0, 0, 0, b'setup000', 0 ))
        s.recv( 1024 )
        s.close()
        return control,thread
    raise RuntimeError( "simulator did not start" )


class Ref( object ):
    """A minimal reference EtherNet/IP CIP originator, written from the specification tables (CIP
    Vol 1 ch. 3, Vol 2 ch. 2, Logix5000 Data Access); shares no code with cpppo."""
    def __init__( self, host='localhost', port=PORT, timeout=5.0 ):
        self.s			= socket.create_connection( (host, port), timeout=timeout )
        self.session		= 0
        self.seq		= 0
        self.ot_id		= None		# O->T Network Connection ID (chosen by the target)
        self.to_id		= None		# T->O Network Connection ID (chosen by us, the originator)
        self.conn_serial	= 0x1234
        self.vendor		= 0x1337
        self.o_serial		= 0x42424242

    def close( self ):
        try:
            self.s.close()
        except Exception:
            pass

    def recv_exact( self, n ):
        buf			= b''
        while len( buf ) < n:
            d			= self.s.recv( n - len( buf ))
            if not d:
                raise EOFError( "connection closed by simulator after %d of %d bytes" % ( len( buf ), n ))
            buf		       += d
        return buf

    def encap( self, command, payload, context=b'refctx01' ):
        return struct.pack( '<HHII8sI', command, len( payload ), self.session, 0, context, 0 ) + payload

    def recv_frame( self ):
        command,length,session,status,context,options \
				= struct.unpack( '<HHII8sI', self.recv_exact( 24 ))
        body			= self.recv_exact( length ) if length else b''
        return dict( command=command, length=length, session=session, status=status,
                     context=context, options=options, body=body )

    def transact( self, command, payload, context=b'refctx01' ):
        self.s.sendall( self.encap( command, payload, context ))
        return self.recv_frame()

    def register( self ):
        r			= self.transact( 0x0065, struct.pack( '<HH', 1, 0 ))
        assert r['command'] == 0x0065 and r['status'] == 0 and r['session'], "Register Session failed: %r" % r
        self.session		= r['session']

    def rr_data( self, cip ):
        """SendRRData: NULL address item + unconnected data item --> encapsulation reply, CIP reply"""
        payload			= struct.pack( '<IH', 0, 5 ) + struct.pack( '<HHHHH', 2, 0x0000, 0, 0x00B2, len( cip )) + cip
        r			= self.transact( 0x006F, payload )
        if r['status'] != 0 or not r['body']:
            return r,None
        b			= r['body']
        iface,timo,count,t0,l0,t1,l1 = struct.unpack_from( '<IHHHHHH', b, 0 )
        assert ( count, t0, l0, t1 ) == ( 2, 0x0000, 0, 0x00B2 ) and 16 + l1 == len( b ), "Bad SendRRData reply: %r" % r
        return r,b[16:]

    def unit_data( self, cip ):
        """SendUnitData: connected address item + connected data item --> encapsulation reply, CIP reply"""
        self.seq		= ( self.seq + 1 ) & 0xFFFF
        payload			= struct.pack( '<IH', 0, 0 ) + struct.pack( '<HHHI', 2, 0x00A1, 4, self.ot_id ) \
                                  + struct.pack( '<HHH', 0x00B1, len( cip ) + 2, self.seq ) + cip
        r			= self.transact( 0x0070, payload )
        if r['status'] != 0 or not r['body']:
            return r,None
        b			= r['body']
        iface,timo,count,t0,l0,cid,t1,l1,seq = struct.unpack_from( '<IHHHHIHHH', b, 0 )
        assert ( count, t0, l0, t1 ) == ( 2, 0x00A1, 4, 0x00B1 ) and 20 + l1 == len( b ), "Bad SendUnitData reply: %r" % r
        r['connection_id']	= cid
        r['sequence']		= seq
        return r,b[22:]

    @staticmethod
    def sym( name ):
        n			= name.encode( 'iso-8859-1' )
        return b'\x91' + struct.pack( 'B', len( n )) + n + ( b'\x00' if len( n ) % 2 else b'' )

    @staticmethod
    def elem( i ):
        if i < 256:
            return struct.pack( '<BB', 0x28, i )
        if i < 65536:
            return struct.pack( '<BBH', 0x29, 0, i )
        return struct.pack( '<BBI', 0x2A, 0, i )

    @staticmethod
    def logical( cls, ins ):
        return struct.pack( '<BBBB', 0x20, cls, 0x24, ins )

    @staticmethod
    def req( service, path, data=b'' ):
        assert len( path ) % 2 == 0
        return struct.pack( '<BB', service, len( path ) // 2 ) + path + data

    def tagpath( self, tag, index=None ):
        p			= b''.join( self.sym( t ) for t in tag.split( '.' ))
        if index is not None:
            p		       += self.elem( index )
        return p

    def read_tag( self, tag, index=None, elements=1 ):
        return self.req( 0x4C, self.tagpath( tag, index ), struct.pack( '<H', elements ))

    def multi( self, reqs ):
        offs,o			= [],2 + 2 * len( reqs )
        for r in reqs:
            offs.append( o )
            o		       += len( r )
        return self.req( 0x0A, self.logical( 0x02, 1 ),
                         struct.pack( '<H', len( reqs )) + b''.join( struct.pack( '<H', o ) for o in offs ) + b''.join( reqs ))

    def unconnected_send( self, cip, route=b'\x01\x00' ):
        data			= struct.pack( '<BBH', 0x0A, 0x0E, len( cip )) + cip + ( b'\x00' if len( cip ) % 2 else b'' ) \
                                  + struct.pack( 'BB', len( route ) // 2, 0 ) + route
        return self.req( 0x52, self.logical( 0x06, 1 ), data )

    @staticmethod
    def parse_reply( cip ):
        svc,rsv,sts,extsz	= struct.unpack_from( '<BBBB', cip, 0 )
        ext			= list( struct.unpack_from( '<%dH' % extsz, cip, 4 ))
        return dict( service=svc, reserved=rsv, status=sts, ext=ext, data=cip[4+2*extsz:] )

    def forward_open( self, conn_path=None, size=500, to_id=0x20000001, ot_id=0x20000002,
                      ot_rpi=0x00201234, to_rpi=0x00204001 ):
        """Forward Open (0x54) to the Connection Manager, class 3 explicit messaging connection."""
        if conn_path is None:
            conn_path		= b'\x01\x00' + self.logical( 0x02, 1 )	# backplane, slot 0; Message Router
        ncp			= struct.pack( '<H', 0x4200 | size )		# P2P, low priority, variable
        data			= struct.pack( '<BBIIHHIBBBB', 0x0A, 0x0E, ot_id, to_id, self.conn_serial, self.vendor,
                                               self.o_serial, 3, 0, 0, 0 ) \
                                  + struct.pack( '<I', ot_rpi ) + ncp + struct.pack( '<I', to_rpi ) + ncp \
                                  + b'\xA3' + struct.pack( 'B', len( conn_path ) // 2 ) + conn_path
        r,cip			= self.rr_data( self.req( 0x54, self.logical( 0x06, 1 ), data ))
        assert cip is not None, "No reply to Forward Open: %r" % r
        rp			= self.parse_reply( cip )
        if rp['status'] == 0:
            ot,to,cs,ov,os_,otapi,toapi,appsz,rsv = struct.unpack_from( '<IIHHIIIBB', rp['data'], 0 )
            rp.update( ot=ot, to=to, cs=cs, ov=ov, os=os_, otapi=otapi, toapi=toapi, appsz=appsz )
            self.ot_id,self.to_id= ot,to
        return rp

    def forward_close( self, conn_path=None ):
        if conn_path is None:
            conn_path		= b'\x01\x00' + self.logical( 0x02, 1 )
        data			= struct.pack( '<BBHHI', 0x0A, 0x0E, self.conn_serial, self.vendor, self.o_serial ) \
                                  + struct.pack( 'BB', len( conn_path ) // 2, 0 ) + conn_path
        r,cip			= self.rr_data( self.req( 0x4E, self.logical( 0x06, 1 ), data ))
        assert cip is not None, "No reply to Forward Close: %r" % r
        return self.parse_reply( cip )


def main():
    control,thread		= start_server( [ 'A=DINT[4]', 'A.B=INT[4]', 'C.D=INT[4]' ] )
    try:
        device.lookup( *device.resolve_tag( 'A' ))[0:4]	= [ 100, 101, 102, 103 ]
        device.lookup( *device.resolve_tag( 'A.B' ))[0:4]	= [ 10, 11, 12, 13 ]
        device.lookup( *device.resolve_tag( 'C.D' ))[0:4]	= [ 20, 21, 22, 23 ]
        c			= Ref()
        c.register()
        bad			= False
        for tag,index,typ,fmt,expect in [
                ( 'A',   1, 0x00C4, '<i', 101 ),
                ( 'C.D', 1, 0x00C3, '<h', 21 ),
                ( 'A.B', 1, 0x00C3, '<h', 11 ),
        ]:
            r,cip		= c.rr_data( c.unconnected_send( c.read_tag( tag, index, 1 )))
            assert cip is not None, "no reply: %r" % r
            rp			= c.parse_reply( cip )
            want		= struct.pack( '<H', typ ) + struct.pack( fmt, expect )
            print( "Read Tag %-4s[%d]: status 0x%02x %r, data %r; expected status 0x00, data %r" % (
                tag, index, rp['status'], rp['ext'], rp['data'], want ))
            if rp['status'] != 0 or rp['data'] != want:
                bad		= True
        try:
            import pylogix
        except ImportError:
            pylogix		= None
        if pylogix:
            with pylogix.PLC( 'localhost', port=PORT ) as comm:
                comm.SocketTimeout = 5
                rsp		= comm.Read( 'A.B[1]' )
                print( "pylogix Read A.B[1]: %r, %r; expected 11, 'Success'" % ( rsp.Value, rsp.Status ))
                if rsp.Value != 11:
                    bad		= True
        if bad:
            print( "DEFECT: the tag A.B exists in the simulator, but is answered 0x05 because the tag A exists too" )
            return 1
        print( "OK" )
        return 0
    finally:
        control['done']		= True
        thread.join( 10 )


if __name__ == "__main__":
    logging.getLogger().setLevel( logging.ERROR )
    sys.exit( main() )
