#!/usr/bin/env python
"""
C01 defect 8: the unsuccessful Forward Close reply carries (like the unsuccessful Forward Open reply)
a Remaining Path Size and a reserved octet after the connection triad (CIP Vol 1, Table 3-5.24), but
the Forward Close reply machine / producer only know the successful layout (Application Reply Size,
reserved, Application Reply).

  input:    ce 00 01 01 07 01 | 01 00  02 00  03 00 00 00 | 05 00
            (general status 0x01, extended 0x0107, connection serial 1, vendor 2, serial 3,
             remaining path size 5 words, reserved)
  expected: the remaining path size is recovered (as forward_open.remaining_path_size is for 0xD4),
            and producing the parsed reply regenerates the octets
  observed: parsed as forward_close.application.size == 5 without any application data; produced
            again with ... | 00 00 (the 5 is lost, whatever the status)
"""
from __future__ import print_function
import sys

import cpppo
from cpppo.dotdict import dotdict
from cpppo.server.enip import device

octets			= b'\xce\x00\x01\x01\x07\x01' + b'\x01\x00\x02\x00\x03\x00\x00\x00' + b'\x05\x00'
data			= dotdict()
with device.Connection_Manager.parser as machine:
    for _ in machine.run( source=cpppo.peekable( octets ), data=data ):
        pass
again			= device.Connection_Manager.produce( data )
if again != octets:
    print( "observed: %r parsed as %r, and reproduced as %r" % ( octets, data, again ))
    print( "expected: the Remaining Path Size (5) of the unsuccessful Forward Close reply survives the round trip" )
    sys.exit( 1 )
print( "ok" )
sys.exit( 0 )
