#!/usr/bin/env python
"""
C01 defect 7: text fields that are collected by a string_bytes machine cannot be empty, although their
producers happily encode an empty text (SSTRING and STRING handle a zero length explicitly; these
don't):

  EPATH symbolic segment ''           91 00                   parse: NonTerminal
  EPATH port segment, link ''         11 00                   parse: NonTerminal
  ListServices service_name ''        01 00 20 01 00          parse: NonTerminal
  Legacy 0x0001 item, ip_address ''   ... 16 x 00             parse: NonTerminal

  expected: what <class>.produce emits is parsed back to the same (empty) text
  observed: NonTerminal "sub-machine terminated in a non-terminal state": the initial state that
            state.from_regex returns ( state( states[machine.initial] ) ) is never terminal, even
            when the regex accepts the empty string, and string_base.terminate expects collected input
"""
from __future__ import print_function
import sys

import cpppo
from cpppo.dotdict import dotdict
from cpppo.server.enip import parser

def parse( machine, octets ):
    data		= dotdict()
    with machine as m:
        for _ in m.run( source=cpppo.peekable( octets ), data=data ):
            pass
    return data

cases			= [
    ( "EPATH symbolic ''",	parser.EPATH,
      dotdict( segment=[ dotdict( symbolic='' ), dotdict( element=1 ) ] ),
      lambda d: [ dict( s ) for s in d.EPATH.segment ] == [ {'symbolic': ''}, {'element': 1} ] ),
    ( "route_path link ''",	parser.route_path,
      dotdict( segment=[ dotdict( port=1, link='' ) ] ),
      lambda d: [ dict( s ) for s in d.route_path.segment ] == [ {'port': 1, 'link': ''} ] ),
    ( "ListServices service_name ''", parser.communications_service,
      dotdict( version=1, capability=0x120, service_name='' ),
      lambda d: d.communications_service.service_name == '' ),
    ( "Legacy 0x0001 ip_address ''", parser.legacy_CPF_0x0001,
      dotdict( sin_family=2, sin_port=44818, sin_addr='0.0.0.0', ip_address='' ),
      lambda d: d.legacy_CPF_0x0001.ip_address == '' ),
]
bad			= []
for name,cls,value,check in cases:
    octets		= cls.produce( value )
    try:
        data		= parse( cls( terminal=True ), octets )
        if not check( data ):
            bad.append( "%s: produced %r, parsed back as %r" % ( name, octets, data ))
    except Exception as exc:
        bad.append( "%s: produced %r, which fails to parse: %r" % ( name, octets, exc ))
if bad:
    for b in bad:
        print( "observed: " + b )
    print( "expected: the empty text that was encoded is recovered" )
    sys.exit( 1 )
print( "ok" )
sys.exit( 0 )
