#!/usr/bin/env python
"""
C01 defect 2: two service machines only work when the parser is run at the top of the data artifact;
under a path (as test_enip_Logix_tags runs Logix.parser: machine.run( ..., path='request', ... )),
they write outside of it or fail.  All the other service machines (Read/Write Tag [Fragmented],
Get Attributes All, Get/Set Attribute Single, Multiple Service Packet, ...) honour the path.

  a) Get Attribute List request   03 02 20 02 24 01 02 00 01 00 02 00, path='request'
     expected: data.request.get_attribute_list == [1, 2]
     observed: AssertionError "Could not find 'request.get_attribute_list.attributes' to move to
               'requestget_attribute_list'" (the list was collected into 'requestget_attribute_list.attributes')

  b) Read Tag reply with an error status   cc 00 05 00, path='request'
     expected: data.request.read_tag is True (the marker the machine leaves when no data follows),
               and nothing outside data.request
     observed: the marker is stored as data['requestread_tag']; data.request has no read_tag
"""
from __future__ import print_function
import sys

import cpppo
from cpppo.dotdict import dotdict
from cpppo.server.enip import logix

def parse( octets, path ):
    data		= dotdict()
    with logix.Logix.parser as machine:
        for _ in machine.run( source=cpppo.peekable( octets ), path=path, data=data ):
            pass
    return data

def top( data ):
    return sorted( dict.keys( data ))

bad			= []

gal			= b'\x03\x02\x20\x02\x24\x01\x02\x00\x01\x00\x02\x00'
assert parse( gal, '' ).get_attribute_list == [1, 2]		# fine at the top level
try:
    data		= parse( gal, 'request' )
    if data.get( 'request.get_attribute_list' ) != [1, 2] or top( data ) != ['request']:
        bad.append( "Get Attribute List under path 'request': parsed %r, expected request.get_attribute_list == [1, 2]" % ( data, ))
except Exception as exc:
    bad.append( "Get Attribute List under path 'request': %r, expected request.get_attribute_list == [1, 2]" % ( exc, ))

for octets,ctx in (( b'\xcc\x00\x05\x00', 'read_tag' ), ( b'\xd2\x00\x05\x01\x00\x00', 'read_frag' )):
    assert parse( octets, '' ).get( ctx ) is True			# fine at the top level
    data		= parse( octets, 'request' )
    if data.get( 'request.' + ctx ) is not True or top( data ) != ['request']:
        bad.append( "error reply %r under path 'request': top-level keys %r, request.%s == %r; expected only 'request', with request.%s == True" % (
            octets, top( data ), ctx, data.get( 'request.' + ctx ), ctx ))

if bad:
    for b in bad:
        print( "observed: " + b )
    sys.exit( 1 )
print( "ok" )
sys.exit( 0 )
