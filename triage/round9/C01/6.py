#!/usr/bin/env python
"""
C01 defect 6: the ListServices reply item (CPF type 0x0100) does not treat the Name of Service as the
fixed 16-octet, NUL-padded field of the CIP layout (EtherNet/IP Vol 2, ListServices reply: Version
UINT, Capability Flags UINT, Name of Service USINT[16]; Item Length 20).

  a) input:    the reply every conforming device sends:  item 00 01 | 14 00 | 01 00 | 20 01 | "Communications" 00 00
     expected: producing the parsed reply regenerates these 24 octets
     observed: 23 octets are produced (Item Length 19): communications_service.produce emits the name
               and a single NUL; the parser consumes just one NUL and leaves the rest of the field unread
  b) input:    a reply listing two services (count 2, two such 24-octet items)
     expected: both items are parsed
     observed: parsing fails ("detected no progress before finding acceptable symbol"): the unread NUL
               of the first item is taken for the start of the second one
"""
from __future__ import print_function
import struct
import sys

import cpppo
from cpppo.dotdict import dotdict
from cpppo.server.enip import parser

def item( name ):
    return struct.pack( '<HHHH', 0x0100, 20, 1, 0x0120 ) + name.encode( 'ascii' ).ljust( 16, b'\x00' )

def parse( octets ):
    data		= dotdict()
    with parser.CPF( terminal=True ) as machine:
        for _ in machine.run( source=cpppo.peekable( octets ), data=data ):
            pass
    return data

bad			= []

one			= b'\x01\x00' + item( 'Communications' )
data			= parse( one )
assert data.CPF.item[0].communications_service.service_name == 'Communications'
again			= parser.CPF.produce( data.CPF )
if again != one:
    bad.append( "a 16-octet Name of Service item (%d octets) is reproduced as %d octets: %r" % (
        len( one ), len( again ), again ))

two			= b'\x02\x00' + item( 'Communications' ) + item( 'Other' )
try:
    data		= parse( two )
    names		= [ i.communications_service.service_name for i in data.CPF.item ]
    if names != ['Communications', 'Other']:
        bad.append( "two service items parsed as %r" % ( data, ))
except Exception as exc:
    bad.append( "a ListServices reply with two 24-octet service items fails to parse: %r" % ( exc, ))

if bad:
    for b in bad:
        print( "observed: " + b )
    print( "expected: Name of Service is a 16-octet NUL-padded field; such items parse and are reproduced exactly" )
    sys.exit( 1 )
print( "ok" )
sys.exit( 0 )
