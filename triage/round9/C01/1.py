#!/usr/bin/env python
"""
C01 defect 1: a Read Tag [Fragmented] reply of a STRUCT that carries only its structure_tag (no
payload octets) is produced, but cannot be parsed.

  input:    Logix.produce( service 0xD2, status 0x06, read_frag.type 0x02A0, .structure_tag 0x1234,
                           .data.input b'' )   -->  d2 00 06 00 a0 02 34 12
  expected: parsing these octets recovers .type, .structure_tag and an empty .data.input (the comment
            in typed_data says so: "there could be a .structure_tag followed by no data ..."), and
            producing the parsed reply regenerates the same octets
  observed: AssertionError "Could not find 'read_frag.STRUCT.data' to move to 'read_frag.STRUCT'"
"""
from __future__ import print_function
import sys

import cpppo
from cpppo.dotdict import dotdict
from cpppo.server.enip import parser, logix

reply			= dotdict( service=0xD2, status=0x06 )
reply.read_frag		= dotdict( type=parser.STRUCT.tag_type, structure_tag=0x1234,
                                   data=dotdict( input=bytearray( b'' )))
octets			= logix.Logix.produce( reply )
expect			= b'\xd2\x00\x06\x00\xa0\x02\x34\x12'
if octets != expect:
    print( "produced %r, expected %r" % ( octets, expect ))
    sys.exit( 1 )

data			= dotdict()
try:
    with logix.Logix.parser as machine:
        for _ in machine.run( source=cpppo.peekable( octets ), data=data ):
            pass
except Exception as exc:
    print( "observed: parsing %r (a STRUCT reply with a structure_tag and no payload) failed: %r" % ( octets, exc ))
    print( "expected: read_frag.type 0x02A0, .structure_tag 0x1234, empty .data.input" )
    sys.exit( 1 )

got			= data.get( 'read_frag', {} )
if got.get( 'type' ) != 0x02A0 or got.get( 'structure_tag' ) != 0x1234 or 'data' not in got \
   or len( got.data.input ) != 0 or logix.Logix.produce( data ) != octets:
    print( "observed: parsed %r" % ( data, ))
    print( "expected: read_frag.type 0x02A0, .structure_tag 0x1234, empty .data.input, reproducing %r" % ( octets, ))
    sys.exit( 1 )
print( "ok" )
sys.exit( 0 )
