#!/usr/bin/env python
"""
C01 defect 4: a Forward Open whose Network Connection Parameters carry a Connection Size of 0 (as a
Null connection does: NCP 0x0000) is parsed, but can neither be produced again, nor be served.

  input:    Forward Open (0x54) with O->T NCP 0x0000 (Null, size 0), T->O NCP 0x43F4
  expected: parsing the produced octets and producing the parsed request regenerates them
  observed: Connection_Manager.produce( parsed ) raises AssertionError "Connection size 0 invalid":
            the parser stores the decoded .size == 0 next to .NCP, and defaults.Connection refuses a
            size of 0 (and, were it admitted, would replace it with the default 510 by 'size or ...').
            The same is true for a Large Forward Open (0x5B) with NCP 0x00000000.
"""
from __future__ import print_function
import sys

import cpppo
from cpppo.dotdict import dotdict
from cpppo.server.enip import device

def segs( *s ):
    return dotdict( segment=[ dotdict( x ) for x in s ] )

bad			= []
for service,null,other,large in (( 0x54, 0x0000, 0x43F4, False ), ( 0x5B, 0x00000000, 0x42000FA0, True )):
    fo			= dotdict( priority_time_tick=5, timeout_ticks=157, connection_serial=1, O_vendor=2, O_serial=3,
                                   connection_timeout_multiplier=0, transport_class_triggers=0xa3,
                                   connection_path=segs( {'port':1,'link':0}, {'class':2}, {'instance':1} ))
    fo.O_T		= dotdict( RPI=1000, connection_ID=1, NCP=null,  large=large )
    fo.T_O		= dotdict( RPI=1000, connection_ID=2, NCP=other, large=large )
    request		= dotdict( service=service, path=segs( {'class':6}, {'instance':1} ), forward_open=fo )
    octets		= device.Connection_Manager.produce( request )

    data		= dotdict()
    with device.Connection_Manager.parser as machine:
        for _ in machine.run( source=cpppo.peekable( octets ), data=data ):
            pass
    assert data.forward_open.O_T.NCP == null and data.forward_open.O_T.size == 0
    try:
        again		= device.Connection_Manager.produce( data )
    except Exception as exc:
        bad.append( "Forward Open 0x%02X with O->T NCP 0x%X (connection size 0): parsed, but producing it again raises %r" % (
            service, null, exc ))
        continue
    if again != octets:
        bad.append( "Forward Open 0x%02X with O->T NCP 0x%X: reproduced %r instead of %r" % ( service, null, again, octets ))
if bad:
    for b in bad:
        print( "observed: " + b )
    print( "expected: the parsed Forward Open reproduces its original octets" )
    sys.exit( 1 )
print( "ok" )
sys.exit( 0 )
