#!/usr/bin/env python
"""
C01 defect 5: the reply to a service the Object doesn't know by name (parsed by the generic "Service
Code" machine) that carries data is parsed, but cannot be produced again.

  input:    cb 00 00 00 01 02 03   (reply 0x4B|0x80, status 0, 3 octets of data)
  expected: Object.produce( parsed ) == the same octets (as it is for the data-less  cb 00 00 00)
  observed: AttributeError 'path': with .service_code present, Object.produce takes the *request*
            branch ( SV_COD_CTX in data and data.get( 'service' ) ) before it tests for a reply
            ( service & 0x80 ), and wants an EPATH
"""
from __future__ import print_function
import sys

import cpppo
from cpppo.dotdict import dotdict
from cpppo.server.enip import device

bad			= []
for octets in ( b'\xcb\x00\x00\x00', b'\xcb\x00\x00\x00\x01\x02\x03', b'\xcb\x00\x1e\x01\x34\x12' ):
    data		= dotdict()
    with device.Object.parser as machine:
        for _ in machine.run( source=cpppo.peekable( octets ), data=data ):
            pass
    try:
        again		= device.Object.produce( data )
    except Exception as exc:
        bad.append( "%r parsed as %r; producing it raises %r" % ( octets, data, exc ))
        continue
    if again != octets:
        bad.append( "%r parsed as %r; reproduced %r" % ( octets, data, again ))
if bad:
    for b in bad:
        print( "observed: " + b )
    print( "expected: a parsed generic service reply reproduces its original octets" )
    sys.exit( 1 )
print( "ok" )
sys.exit( 0 )
