#!/usr/bin/env python
"""
C01 defect 3: a CPF item of a recognized type with a zero length is parsed, but the parsed CPF
cannot be produced again.

  input:    CPF  02 00 | 00 00 00 00 | b2 00 00 00   (NULL address item, empty Unconnected Data item);
            likewise an empty 0x00a1 / 0x00b1 / 0x0100 / 0x000c / 0x0001 item
  expected: CPF.produce( parsed ) regenerates the octets (as it does for an empty item of an
            unrecognized type, eg. 0x8000)
  observed: KeyError 'unconnected_send' (CPF.produce insists on the item's parsed payload, which the
            parser doesn't create for a zero .length)
"""
from __future__ import print_function
import struct
import sys

import cpppo
from cpppo.dotdict import dotdict
from cpppo.server.enip import parser

bad			= []
for type_id in ( 0x8000, 0x00b2, 0x00b1, 0x00a1, 0x0100, 0x000c, 0x0001 ):
    octets		= b'\x02\x00' + b'\x00\x00\x00\x00' + struct.pack( '<HH', type_id, 0 )
    data		= dotdict()
    with parser.CPF( terminal=True ) as machine:
        for _ in machine.run( source=cpppo.peekable( octets ), data=data ):
            pass
        assert machine.terminal
    assert [ (i.type_id,i.length) for i in data.CPF.item ] == [ (0,0), (type_id,0) ]
    try:
        again		= parser.CPF.produce( data.CPF )
    except Exception as exc:
        bad.append( "CPF with an empty item of type 0x%04x: parsed as %r, but producing it raises %r" % (
            type_id, data.CPF, exc ))
        continue
    if again != octets:
        bad.append( "CPF with an empty item of type 0x%04x: reproduced %r" % ( type_id, again ))
if bad:
    for b in bad:
        print( "observed: " + b )
    print( "expected: the parsed CPF reproduces its original octets" )
    sys.exit( 1 )
print( "ok" )
sys.exit( 0 )
