#!/usr/bin/env python
"""
C01 defect 9: two more places where a zero-length payload is parsed but cannot be produced again
(or the other way around):

  a) Unconnected Send (0x52) whose embedded message length is 0:
       52 02 20 06 24 01 05 9d 00 00 01 00 01 00
     parsed (length 0, no .request); unconnected_send.produce( parsed ) raises AttributeError 'request'
  b) Connected Data item (CPF type 0x00b1) that carries a sequence count and no message:
       connection_data.produce( sequence 7, request.input b'' )  -->  07 00
     parsing these 2 octets raises NonTerminal (the machine insists on at least one octet of request)

  expected: both round-trip (an empty request is an empty request)
"""
from __future__ import print_function
import sys

import cpppo
from cpppo.dotdict import dotdict
from cpppo.server.enip import parser

def parse( machine, octets ):
    data		= dotdict()
    with machine as m:
        for _ in m.run( source=cpppo.peekable( octets ), data=data ):
            pass
        assert m.terminal
    return data

bad			= []

octets			= b'\x52\x02\x20\x06\x24\x01\x05\x9d\x00\x00\x01\x00\x01\x00'
data			= parse( parser.unconnected_send( terminal=True ), octets )
assert data.unconnected_send.length == 0 and data.unconnected_send.route_path.segment == [ {'port': 1, 'link': 0} ]
try:
    again		= parser.unconnected_send.produce( data.unconnected_send )
    if again != octets:
        bad.append( "Unconnected Send with an empty message reproduced as %r" % ( again, ))
except Exception as exc:
    bad.append( "Unconnected Send with an empty message: parsed %r; producing it raises %r" % ( data, exc ))

octets			= parser.connection_data.produce( dotdict( sequence=7, request=dotdict( input=bytearray() )))
assert octets == b'\x07\x00'
try:
    data		= parse( parser.connection_data( terminal=True ), octets )
    if data.connection_data.sequence != 7:
        bad.append( "Connected Data item %r parsed as %r" % ( octets, data ))
except Exception as exc:
    bad.append( "Connected Data item with only a sequence count %r: parsing raises %r" % ( octets, exc ))

if bad:
    for b in bad:
        print( "observed: " + b )
    print( "expected: both round-trip" )
    sys.exit( 1 )
print( "ok" )
sys.exit( 0 )
