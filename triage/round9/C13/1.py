"""C13 defect 1: over a connected ( Forward Open, client.implicit / proxy_connected ) session, a reply that is
lost entirely makes the client hand out the replies that follow to the wrong requests.

The connected requests carry a sequence count ( CPF item 0xb1, connection_data.sequence ) which the peer echoes
in its reply, but connector.harvest only compares the sender context ( always b'' on a connected session ) and
the service code: every later reply of the same service is accepted for the request before it.

Expected: every value yielded belongs to its own operation, and an error ends the exchange.
Exit 1 while values of other requests are yielded, 0 otherwise.
"""
from __future__ import print_function
import logging, select, socket, struct, sys, threading, time

from cpppo.dotdict import apidict
from cpppo.server import enip
from cpppo.server.enip import client
from cpppo.server.enip.get_attribute import proxy_connected
from cpppo.server.enip.main import main as enip_main

logging.basicConfig( level=logging.CRITICAL )
logging.getLogger().setLevel( logging.CRITICAL )

SRV				= ( '127.0.0.1', 44915 )

def start_server():
    control			= apidict( enip.timeout, { 'done': False } )
    thr				= threading.Thread( target=enip_main, kwargs=dict(
        argv=[ '--address', '%s:%d' % SRV, 'A=DINT[4]', 'B=DINT[4]', 'C=DINT[4]' ],
        server={ 'control': control } ))
    thr.daemon			= True
    thr.start()
    for _ in range( 100 ):
        try:
            socket.create_connection( SRV, timeout=.2 ).close()
            return control
        except Exception:
            time.sleep( .1 )
    raise Exception( "simulator did not start" )


class relay( object ):
    """TCP relay; forwards everything, except the server-to-client octets in the range .drop"""
    def __init__( self ):
        self.lsn		= socket.socket()
        self.lsn.setsockopt( socket.SOL_SOCKET, socket.SO_REUSEADDR, 1 )
        self.lsn.bind( ( '127.0.0.1', 0 ))
        self.lsn.listen( 5 )
        self.addr		= self.lsn.getsockname()
        self.drop		= None		# (begin,end)
        self.seen		= []		# server-to-client octets of each connection
        self.done		= False
        thr			= threading.Thread( target=self.run )
        thr.daemon		= True
        thr.start()

    def run( self ):
        while not self.done:
            r,_,_		= select.select( [ self.lsn ], [], [], .1 )
            if r:
                c,_		= self.lsn.accept()
                thr		= threading.Thread( target=self.handle, args=( c, self.drop ))
                thr.daemon	= True
                thr.start()

    def handle( self, c, drop ):
        s			= socket.create_connection( SRV )
        log			= bytearray()
        self.seen.append( log )
        try:
            while not self.done:
                r,_,_		= select.select( [ c, s ], [], [], .1 )
                for x in r:
                    d		= x.recv( 4096 )
                    if not d:
                        return
                    if x is s:
                        pos	= len( log )
                        log    += d
                        if drop:
                            d	= bytes( bytearray(
                                b for i,b in enumerate( bytearray( d ), pos ) if not drop[0] <= i < drop[1] ))
                        if d:
                            c.sendall( d )
                    else:
                        s.sendall( d )
        except socket.error:
            pass
        finally:
            c.close()
            s.close()


def frames( octets ):
    i				= 0
    while i < len( octets ):
        ln,			= struct.unpack( '<H', bytes( octets[i+2:i+4] ))
        yield i,i+24+ln
        i		       += 24+ln


tags				= [ 'A[0-1]', 'B[0-1]', 'C[0-1]', 'A[2]', 'B[2]', 'C[2]' ]
expect				= [ [1,2], [11,12], [21,22], [3], [13], [23] ]

def main():
    control			= start_server()
    with client.connector( *SRV, timeout=5 ) as conn:
        fail,_			= conn.process( client.parse_operations( [
            'A[0-3]=(DINT)1,2,3,4', 'B[0-3]=(DINT)11,12,13,14', 'C[0-3]=(DINT)21,22,23,24' ] ), depth=1 )
        assert not fail

    rly				= relay()
    def trial( drop ):
        """Read the tags through a proxy_connected, pipeline depth 3, with one reply frame swallowed"""
        rly.drop		= drop
        via			= proxy_connected( rly.addr[0], port=rly.addr[1], timeout=.5, depth=3,
                                                   identity_default="demo" )
        res,err			= [],None
        try:
            for val in via.read( tags ):
                res.append( val )
        except Exception as exc:
            err			= exc
        try:
            via.close_gateway()
        except Exception:
            pass
        return res,err

    res,err			= trial( None )
    assert err is None and res == expect, "unexpected results w/o fault: %r, %r" % ( res, err )
    time.sleep( .2 )
    bounds			= list( frames( rly.seen[-1] ))
    # Register, Forward Open, 6 read replies ( and perhaps the Forward Close reply )
    assert len( bounds ) >= 2 + len( tags ), "unexpected reply stream: %r" % ( bounds, )

    bad				= []
    for k in range( len( tags ) - 1 ):
        res,err			= trial( bounds[2+k] )
        wrong			= [ (tags[i],r) for i,r in enumerate( res ) if r != expect[i] ]
        if wrong:
            bad.append( "reply to %-6s lost: read yielded (attribute,value): %r; then: %.60s" % (
                tags[k], wrong, err ))
        elif err is None:
            bad.append( "reply to %-6s lost: %d values and no error" % ( tags[k], len( res )))

    rly.done			= True
    control['done']		= True
    if bad:
        print( "OBSERVED over a connected session (expected: only the values of the operation itself, then an error):" )
        for b in bad:
            print( "  " + b )
        return 1
    print( "OK: a lost reply never made a value come out for another operation" )
    return 0

if __name__ == "__main__":
    sys.exit( main() )
