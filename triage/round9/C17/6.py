#!/usr/bin/env python
"""
C17 defect 6 (unchanged code; adjacent to the property -- parse_seconds is one of its anchors, but the
statement only speaks of texts that duration formatted): parse_seconds() looks for 'HHH:MM[:SS[.sss]]'
with re.search(), not an anchored match, so anything around the first 'H:MM' it finds is dropped silently:

    parse_seconds( '-1:30' )    ->  +5400.0	( sign lost )
    parse_seconds( '1d 2:30' )  ->   9000.0	( the day lost )
    parse_seconds( '1:300' )    ->   5400.0	( trailing digit lost )

Expected: the whole text accounted for ( -5400 / 95400 ), or a rejection.   Observed: part of the text ignored.
"""
from __future__ import print_function
import sys

from cpppo.history.times import parse_seconds

failures			= []
for text,expect in (
        ( '-1:30',		-5400.0 ),
        ( '1d 2:30',		95400.0 ),
        ( '1:300',		None ),
        ( 'x1:30y',		None ),
        ( '1:30',		5400.0 ),		# fine, for reference
        ( '0:00:59.9996',	59.9996 ),		# fine, for reference
):
    try:
        got			= parse_seconds( text )
    except Exception:
        continue							# rejected: acceptable
    if expect is None or abs( got - expect ) > 1e-6:
        failures.append( "parse_seconds( %r ) is %r; expected %s" % (
            text, got, "a rejection" if expect is None else "%r or a rejection" % expect ))

if failures:
    print( "Expected parse_seconds to account for the whole text; observed:" )
    for f in failures:
        print( "  " + f )
    sys.exit( 1 )
print( "OK" )
