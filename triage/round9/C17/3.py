#!/usr/bin/env python
"""
C17 defect 3 (unchanged code): with no sub-second digits ( ms=False -- what timestamp.local uses ), a
rendering that ends in a '-NN' / '-HHMM' zone designation is parsed as UTC, the designation taken for
the FRACTION of the second: datetime_from_string() turns the '-' into a blank, finds a last term made of
digits ( "no zone" ), and reads it as microseconds.

   render( 'America/Edmonton', ms=False, tzdetail=False )  ->  '2001-09-08 19:46:40-0600'  ->  19:46:40.060000 UTC
   render( 'America/Sao_Paulo', ms=False )                 ->  '2001-09-08 22:46:40 -03'    ->  22:46:40.030000 UTC

( tzdata gives most zones numeric abbreviations such as '-03' nowadays, so the second form is the
default rendering, and what  ts.local = ts.local  does on a host in such a zone. )

Expected: the same instant, or a rejection.   Observed: an instant hours ( and some 1/100 s ) away, no error.
"""
from __future__ import print_function
import sys
import warnings
warnings.simplefilter( 'ignore' )

from cpppo.history import times
from cpppo.history.times import timestamp

value				= 1000000000.0	# 2001-09-09 01:46:40 UTC
failures			= []
for zone,kwds in (
        ( 'America/Edmonton',	dict( ms=False, tzdetail=False )),
        ( 'America/St_Johns',	dict( ms=False, tzdetail=False )),
        ( 'Etc/GMT+5',		dict( ms=False, tzdetail=False )),
        ( 'America/Sao_Paulo',	dict( ms=False )),
        ( 'America/Bogota',	dict( ms=False )),
        ( 'Etc/GMT+5',		dict( ms=False )),
):
    text			= timestamp( value ).render( zone, **kwds )
    try:
        back			= timestamp( text ).value
    except Exception:
        continue								# rejected: acceptable
    if abs( back - value ) > 0.0005:
        failures.append( "%-18s %-28r parses to %s UTC; off by %+.2fs" % ( zone, text, timestamp( back ), back - value ))

# The same through the .local property, on a host whose local zone has a numeric abbreviation
saved				= timestamp.LOC
try:
    timestamp.LOC		= times.pytz.timezone( 'America/Sao_Paulo' )
    ts				= timestamp( value )
    text			= ts.local
    try:
        ts.local		= text
        if abs( ts.value - value ) > 0.0005:
            failures.append( "LOC America/Sao_Paulo: ts.local = ts.local ( %r ) moved the timestamp by %+.2fs" % (
                text, ts.value - value ))
    except Exception:
        pass
finally:
    timestamp.LOC		= saved

if failures:
    print( "Expected %s UTC back ( or a rejection ); observed:" % ( timestamp( value )))
    for f in failures:
        print( "  " + f )
    sys.exit( 1 )
print( "OK" )
