#!/usr/bin/env python
"""
C17 defect 1 (unchanged code): a time rendered with the full name of a zone whose name contains a '-'
cannot be parsed back.  timestamp.datetime_from_string() translates ':', '-' and '.' to blanks over the
WHOLE text, zone name included, so 'America/Port-au-Prince' falls apart into 'America/Port', 'au', 'Prince'.

Expected: timestamp( ts.render( zone, tzdetail=True )) is the same instant (the time is not ambiguous).
Observed: ValueError ( UnknownTimeZoneError('Prince') / 'N terms unexpected' ) for every instant.
"""
from __future__ import print_function
import sys
import warnings
warnings.simplefilter( 'ignore' )

from cpppo.history.times import timestamp

value				= 1700000000.123	# 2023-11-14 22:13:20.123 UTC; no transition anywhere near
failures			= []
for zone in ( 'America/Port-au-Prince', 'America/Blanc-Sablon', 'Africa/Porto-Novo', 'Asia/Ust-Nera',
              'US/East-Indiana', 'Etc/GMT-5', 'Etc/GMT-0', 'GB-Eire', 'NZ-CHAT', 'W-SU',
              'America/Edmonton', 'Etc/GMT+5' ):	# the last two: no '-', for reference
    text			= timestamp( value ).render( zone, tzdetail=True )
    try:
        back			= timestamp( text ).value
    except Exception as exc:
        failures.append( "%-24s %r is rejected: %s" % ( zone, text, exc.args[-1] if exc.args else exc ))
        continue
    if abs( back - value ) > 0.0005:
        failures.append( "%-24s %r parses to %r instead of %r" % ( zone, text, back, value ))

if failures:
    print( "Expected every rendering to parse back to %r; observed:" % ( value ))
    for f in failures:
        print( "  " + f )
    sys.exit( 1 )
print( "OK" )
