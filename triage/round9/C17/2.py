#!/usr/bin/env python
"""
C17 defect 2 (unchanged code): the DEFAULT rendering of a non-UTC time appends the zone's abbreviation
( '%Z' ), and datetime_from_string() takes a trailing word for a zone NAME.  Several abbreviations are
also names of tz database zones with different rules ( EET, CET, MET, WET, EST, MST, HST ), so the text
parses -- silently -- to a different instant whenever the two disagree.

Example: Egypt left DST on 2023-10-27 00:00 local; 2023-10-26 21:30:00 UTC is 23:30 EET ( UTC+2 ) in
Africa/Cairo.  The zone named 'EET' ( = Europe/Athens ) is still on summer time ( UTC+3 ) until Oct 29, so
'2023-10-26 23:30:00.000 EET' parses to 20:30:00 UTC: one hour off, no error.

Expected: the same instant, or a rejection.   Observed: a different instant.
"""
from __future__ import print_function
import sys
import warnings
warnings.simplefilter( 'ignore' )

from cpppo.history.times import timestamp

failures			= []
for zone,start,hours in (
        ( 'Africa/Cairo',	1698355800.0,	72 ),	# 2023-10-26 21:30 UTC ..
        ( 'Asia/Beirut',	1679785200.0,	96 ),	# 2023-03-25 23:00 UTC ..	( EET, DST from Mar 30 that year )
        ( 'Europe/Chisinau',	1679785200.0,	 6 ),	# switches at 02:00/03:00 local, not 01:00 UTC
        ( 'Pacific/Honolulu',	-1157290200.0,	 4 ),	# 1933 HST was UTC-10:30
):
    for h in range( hours ):
        value			= start + h * 3600
        text			= timestamp( value ).render( zone )		# eg. '2023-10-26 23:30:00.000 EET'
        try:
            back		= timestamp( text ).value
        except Exception:
            continue							# rejected: acceptable
        if abs( back - value ) > 0.0005:
            failures.append( "%-18s %r ( = %s UTC ) parses to %s UTC; off by %+.0fs" % (
                zone, text, timestamp( value ), timestamp( back ), back - value ))

if failures:
    print( "Expected each default rendering to parse back to the same instant ( or be rejected ); observed %d mapped elsewhere:" % (
        len( failures )))
    for f in failures[:12]:
        print( "  " + f )
    sys.exit( 1 )
print( "OK" )
