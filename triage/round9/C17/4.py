#!/usr/bin/env python
"""
C17 defect 4 (unchanged code): parse_datetime() -- the other parser of 'YYYY-MM-DD HH:MM:SS[.sss] Zone/Name'
texts in history/times.py -- accepts wall-clock times that are ambiguous or do not exist in the named zone, and
maps them to some instant: it calls tz.localize( naive ) WITHOUT is_dst=None ( timestamp.datetime_from_string
passes is_dst=None and gets AmbiguousTimeError / NonExistentTimeError ).

   ts = 2014-11-02 08:30:00 UTC  ( 01:30 MST, the SECOND 01:30 that night in America/Edmonton )
   parse_datetime( ts.render( 'America/Edmonton', tzdetail=True ))  ->  07:30:00 UTC, one hour early
   parse_datetime( '2014-03-09 02:30:00 America/Edmonton' )         ->  accepted ( there was no 02:30 that night )

Expected: rejected, as timestamp( text ) does.   Observed: mapped to a different instant.
"""
from __future__ import print_function
import sys
import warnings
warnings.simplefilter( 'ignore' )

from cpppo.history.times import timestamp, parse_datetime

failures			= []

value				= 1414917000.0		# 2014-11-02 08:30:00 UTC == 01:30 MST, after the fall back
text				= timestamp( value ).render( 'America/Edmonton', tzdetail=True )
try:
    back			= timestamp( parse_datetime( text )).value
    if abs( back - value ) > 0.0005:
        failures.append( "ambiguous   %r: parse_datetime -> %s UTC, but it was rendered from %s UTC" % (
            text, timestamp( back ), timestamp( value )))
except Exception as exc:
    pass								# rejected: what the property asks for

text				= '2014-03-09 02:30:00 America/Edmonton'
try:
    back			= timestamp( parse_datetime( text ))
    failures.append( "nonexistent %r: parse_datetime -> %s UTC ( timestamp() says: %s )" % (
        text, back, "rejected" ))
except Exception as exc:
    pass

# for reference: the strict parser rejects both
for text in ( '2014-11-02 01:30:00 America/Edmonton', '2014-03-09 02:30:00 America/Edmonton' ):
    try:
        timestamp( text )
        failures.append( "timestamp( %r ) was accepted" % ( text ))
    except ValueError:
        pass

if failures:
    print( "Expected ambiguous / nonexistent wall-clock times to be rejected; observed:" )
    for f in failures:
        print( "  " + f )
    sys.exit( 1 )
print( "OK" )
