#!/usr/bin/env python
"""
C17 defect 5 (unchanged code; adjacent to the property -- duration._format itself never emits more than 6
fraction digits): duration._parse() right-PADS the seconds fraction to 6 digits and takes it for a count of
microseconds, so a fraction with MORE than 6 digits becomes a larger number instead of a finer one:

    duration( '0.9999999s' )  ->  9.999999 s     ( ten times too long )
    duration( '1.0000001s' )  ->  1.000001 s     ( fraction ten times too large )

Such texts come from any other formatter of seconds ( '%.7fs', repr of a float, a nanosecond clock ); the same
grammar accepts '100ns', so finer-than-microsecond input is meant to be accepted and cut down to microseconds.

Expected: 0.999999 s / 1.000000 s ( excess digits dropped, like 'ns' // 1000 ), or a rejection.
Observed: a different, much larger duration, silently.
"""
from __future__ import print_function
import sys

from cpppo.history.times import duration, parse_seconds

failures			= []
for text,expect in (
        ( '0.9999999s',		0.9999999 ),
        ( '1.0000001s',		1.0000001 ),
        ( '0.1234567s',		0.1234567 ),
        ( '2m0.00000049s',	120.00000049 ),
        ( '0.123456s',		0.123456 ),		# 6 digits: fine, for reference
):
    try:
        got			= duration( text ).seconds
        assert got == parse_seconds( text )
    except Exception:
        continue							# rejected: acceptable
    if abs( got - expect ) > 1e-6:
        failures.append( "duration( %r ) is %r s ( str: %s ); expected %.6f s to the microsecond" % (
            text, got, duration( text ), expect ))

if failures:
    print( "Expected fractions of more than 6 digits to be cut to microseconds ( or rejected ); observed:" )
    for f in failures:
        print( "  " + f )
    sys.exit( 1 )
print( "OK" )
