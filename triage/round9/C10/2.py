#!/usr/bin/env python
"""
C10 defect 2 ( unchanged code ): a repeat count of 0 leaves the dfa with the terminal state of its
PREVIOUS run.

dfa_base.delegate ( automata.py ) resets .current to the initial state at the start of each cycle
( reset() ), so with a repeat count that resolves to 0 no cycle is run and .current is left as it
was when the same instance was last used; dfa_base.terminal then reports

    self._terminal and self.current.terminal and not self.loop()

from that stale state.  For a sub-machine of more than one state ( enip.words: byte0 -> byte1 ) the
outcome of parsing "zero words" depends on history: a fresh machine reports NOT terminal ( its
.current is the non-terminal byte0 ), the same machine after any successful run reports terminal
( .current is the terminal byte1 ) -- for identical input, data and count.

Expected: one answer for repeat == 0, whatever was parsed before; by analogy with enip.octets
( enip_test.test_octets_zero requires octets( repeat=0 ) to be terminal ) the answer is "terminal".
Repair: make the zero-cycle case independent of .current, eg. in dfa_base.terminal

    return self._terminal and not self.loop() and ( self.cycle == 0 or self.current.terminal )

( and reset() ahead of the cycle loop, so that .name / logging do not show the stale state either ).
"""
from __future__ import print_function

import sys

import cpppo
from cpppo.server.enip import parser


def parse( machine, octets, count ):
    data			= cpppo.dotdict()
    data['w.n']			= count
    source			= cpppo.peekable( octets )
    with machine:
        for m,s in machine.run( source=source, data=data ):
            if s is None and source.peek() is None:
                break
        return source.sent,machine.terminal


machine				= parser.words( 'w', context='w', repeat='.n', terminal=True )
observed			= []
for count in ( 0, 2, 0 ):
    sent,terminal		= parse( machine, b'abcdefgh', count )
    print( "words( repeat='.n' ), n == %d: consumed %d, terminal %r" % ( count, sent, terminal ))
    observed.append( (count,sent,terminal) )

fresh,_,again			= observed
if fresh != again:
    print( "\nOBSERVED: n == 0 on the fresh machine: terminal %r; n == 0 after a run with n == 2: terminal %r;"
           " EXPECTED: the same answer ( terminal, as for octets( repeat=0 ))" % ( fresh[2], again[2] ))
    sys.exit( 1 )
print( "OK" )
sys.exit( 0 )
