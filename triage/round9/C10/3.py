#!/usr/bin/env python
"""
C10 defect 3 ( unchanged code ): enip_machine( context='' ) parses the header and then takes NONE of
the .length payload octets -- and completes successfully.

parser.enip_machine documents its context as "defaults to 'enip' (unless explicitly set to '')".  With
context='' ( and no path given to run ), the header fields land at the top level of the data ( command,
length, ... ), and the payload state

    hedr[None] = octets( 'payload', repeat=".length", terminal=True )

resolves its repeat count through state.context( path, '.length' ) == '.length'.  dotdict cannot look
that key up: dotdict._resolve( '.length' ) strips the leading '.', but leaves its 'rest' variable at
the value of the previous iteration, and returns ( 'length', 'length' ); the lookup of "length" within
the integer raises KeyError, which data.get( final_src, 0 ) in dfa_base.delegate turns into a repeat
count of 0.  ( '.a.b' resolves; only a single name behind the leading '.' does not. )

So the length field parsed earlier in the same message says 4, the payload sub-grammar runs 0 times,
the machine reports terminal after 24 symbols, .input is missing, and the 4 payload octets are taken
for the header of the next frame.

Expected: 28 symbols consumed, input == the 4 payload octets ( as with context='enip', or with
context='' below any non-empty path ).
Repair: resolve a repeat ( dfa_base.delegate ) or limit ( state.run ) path that comes out with a single
leading '.' -- path and context both empty -- at the top level, ie. strip that '.':

    final_src = self.context( path, final_src )
    if final_src.startswith( '.' ) and not final_src.startswith( '..' ):
        final_src = final_src[1:]

( Repairing dotdict._resolve itself -- "mine,rest = rest,None" -- is not an option without more: the
'.name' == 'name.name' reading is relied upon elsewhere: automata_test.test_regex expects the
input of a context-less regex at data.input.input, and state_multiple_service.terminate tests
path+'.path' in data. )
"""
from __future__ import print_function

import sys

import cpppo
from cpppo.server.enip import parser

register			= ( b'\x65\x00\x04\x00' + b'\x00' * 20	# RegisterSession header, .length == 4
                                    + b'\x01\x00\x00\x00' )		#   and its 4 octets of payload
stream				= register + register			# 2 frames

def parse( machine, path=None ):
    source			= cpppo.peekable( stream )
    data			= cpppo.dotdict()
    with machine:
        for m,s in machine.run( source=source, data=data, path=path ):
            pass
        return source.sent,machine.terminal,data

results				= {}
for desc,kwds,path in (
        ( "context='enip'", 		dict( context='enip' ),	None ),
        ( "context='', path='x'",	dict( context='' ),	'x' ),
        ( "context=''", 		dict( context='' ),	None )):
    sent,terminal,data		= parse( parser.enip_machine( terminal=True, **kwds ), path=path )
    top				= data.get( 'enip', data.get( 'x', data ))
    payload			= top.get( 'input' )
    if isinstance( payload, dict ):	# at the top level, a state_input's '.input' is data.input.input ( see automata_test.test_regex )
        payload			= payload.get( 'input' )
    print( "enip_machine( %-21s ): consumed %2d, terminal %r, .length %r, .input %r" % (
        desc, sent, terminal, top.get( 'length' ), None if payload is None else bytes( bytearray( payload ))))
    results[desc]		= (sent,terminal,None if payload is None else bytes( bytearray( payload )))

want				= ( len( register ), True, register[-4:] )
if results["context=''"] != want:
    print( "\nOBSERVED: with context='' the frame's .length is 4, but the payload sub-grammar ran 0 times: %r;"
           " EXPECTED: %r" % ( results["context=''"], want ))
    sys.exit( 1 )
print( "OK" )
sys.exit( 0 )
