#!/usr/bin/env python
"""
C10 defect 1 ( unchanged code ): the Unconnected Send error look-ahead loses symbols at the end of
an input block.

unconnected_send.is_uerr ( server/enip/parser.py ) decides between "Unconnected Send error status"
and "opaque reply" for a 0xD2 item of 4..6 octets by taking 4 symbols with next( source ) and pushing
them back.  When the source is a chained one whose current block ends within those 4 symbols ( the
item's octets arrive in two blocks ), next() raises StopIteration in the middle: the symbols already
taken are NOT pushed back ( source.sent stays advanced, the symbols are gone ), and the StopIteration
escapes the predicate as RuntimeError( 'generator raised StopIteration' ).

Every other machine of the library parses the same message identically whether it is supplied whole
or in blocks of any size ( that is what the chaining source is for ); here the same valid CPF list
parses when supplied whole, and fails when the block boundary falls inside the first 4 octets of
the 0xD2 item.

Expected: the same result for every chunking ( the machine awaits the next block, as all others do ).
Repair: take the look-ahead defensively and always restore it, eg.

    ahead = list( itertools.islice( source, 4 ))
    for symbol in reversed( ahead ):
        source.push( symbol )
    if len( ahead ) < 4: ...		# not decidable yet ( or: parse the status with states instead )

( the repair of round 8, fc1cabe, only excluded items shorter than 4 octets ).
"""
from __future__ import print_function

import sys

import cpppo
from cpppo.server.enip import parser

# CPF: 2 items; NULL address, and an Unconnected Send error reply: 0xD2, reserved, status 0x05, no ext. status
cpf				= b'\x02\x00' + b'\x00\x00\x00\x00' + b'\xb2\x00\x04\x00' + b'\xd2\x00\x05\x00'

def parse( blocks ):
    source			= cpppo.chainable( blocks[0] )
    blocks			= list( blocks[1:] )
    data			= cpppo.dotdict()
    exception,terminal		= None,None
    try:
        with parser.CPF( terminal=True ) as machine:
            engine		= machine.run( source=source, data=data )
            try:
                for m,s in engine:
                    if s is None and source.peek() is None:
                        if not blocks:
                            break
                        source.chain( blocks.pop( 0 ))
            finally:
                engine.close()
            terminal		= machine.terminal
    except Exception as exc:
        exception		= exc
    return source,data,terminal,exception

whole				= parse( [cpf] )
assert whole[3] is None and whole[2], "The CPF list should parse when supplied whole: %r" % ( whole, )
print( "whole            : consumed %2d, terminal %r, status %r" % (
    whole[0].sent, whole[2], whole[1].CPF.item[1].unconnected_send.status ))

bad				= []
for cut in range( 1, len( cpf )):
    source,data,terminal,exception = parse( [cpf[:cut], cpf[cut:]] )
    same			= ( exception is None and terminal == whole[2]
                                    and source.sent == whole[0].sent and data == whole[1] )
    print( "blocks %2d + %2d   : consumed %2d, terminal %r, %s" % (
        cut, len( cpf ) - cut, source.sent, terminal,
        "same result" if same else "DIFFERENT: %r; item: %r" % ( exception, data.get( 'CPF.item__' ))))
    if not same:
        bad.append( cut )

if bad:
    print( "\nOBSERVED: the CPF list supplied in two blocks split at %r fails ( symbols of the 0xD2 item taken"
           " and not restored ); EXPECTED: the result of the whole input for every split" % ( bad, ))
    sys.exit( 1 )
print( "OK" )
sys.exit( 0 )
