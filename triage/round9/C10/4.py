#!/usr/bin/env python
"""
C10 defect 4 ( unchanged code; adjacent to the property -- an item that ends BEFORE its boundary ):
the CPF list does not advance to the end of an item whose parser completed early, so the rest of the
item is parsed as the next item of the list.

parser.CPF gives each recognized item parser limit='..length' -- an upper bound.  Several item
parsers are complete before that: connection_ID after its UDINT, unconnected_send's error reply after
status ( a reply with "remaining path size" has .length 6, 4 are parsed; see the TODO in
unconnected_send.produce ), identity_object / communications_service after their last field.  The
'each' dfa then moves the item to .item and the 'all' dfa starts the next cycle AT THE CURRENT
POSITION, inside the item: the item's own .length, parsed just ahead of it, is not honoured by the
list, and the list desynchronizes.  Where the left-over happens to look like an item header the list
even completes successfully, with a phantom item, and stops short of its real 2nd item.

Expected: a list of .count items, each occupying its 4-octet header plus exactly .length octets --
item[1] is the 0x00b1 item, 20 symbols consumed -- or a failure.
Repair: let the list consume the remainder of each item, eg. wrap the item parser in a dfa that
carries the limit ( limit='.length' ) and append a drop-loop to the parser inside it
( parser[True] = skip; skip[True] = skip ), or collect every item's .length octets into .input first
( as 'unrecognized' does ) and run the item parser over that.
"""
from __future__ import print_function

import sys

import cpppo
from cpppo.server.enip import parser

cpf				= ( b'\x02\x00'					# 2 items
                                    + b'\xa1\x00\x08\x00'			# connection ID item, .length 8
                                    +   b'\x01\x02\x03\x04'			#   the UDINT connection ID
                                    +   b'\x34\x12\x00\x00'			#   4 more octets of the same item
                                    + b'\xb1\x00\x04\x00'			# connected data item, .length 4
                                    +   b'\x07\x00\xaa\xbb' )			#   sequence 7, request aa bb

source				= cpppo.peekable( cpf )
data				= cpppo.dotdict()
exception,terminal		= None,None
try:
    with parser.CPF( terminal=True ) as machine:
        for m,s in machine.run( source=source, data=data ):
            if s is None and source.peek() is None:
                break
        terminal		= machine.terminal
except Exception as exc:
    exception			= exc

print( "consumed %d of %d, terminal %r, exception %r" % ( source.sent, len( cpf ), terminal, exception ))
items				= data.get( 'CPF.item', [] )
for i,item in enumerate( items ):
    print( "item[%d]: %r" % ( i, dict( item )))

if exception is None and terminal:
    second			= items[1].type_id if len( items ) > 1 else None
    if second != 0x00b1 or source.sent != len( cpf ):
        print( "\nOBSERVED: the list completed successfully after %d symbols with item[1].type_id == %s, made of the"
               " octets of item[0]; EXPECTED: item[1] is the 0x00b1 item and all %d symbols are consumed ( or a failure )" % (
                   source.sent, None if second is None else hex( second ), len( cpf )))
        sys.exit( 1 )
print( "OK" )
sys.exit( 0 )
