"""
The operation text "@0x99/1/1=(SINT)-1,2,3,4" ( or, through get_attribute.attribute_operations whose default
integer type is SINT, simply "@0x99/1/1=-1,2,3,4" ) is well formed: the SINT validator of client.CIP_TYPES
accepts -128 .. 255.  client.set_attribute_single ( and service_code ) convert the data of every type to the
USINT octets Set Attribute Single carries - except SINT, which is handed on unconverted:

    if tag_type not in (None,parser.SINT.tag_type,parser.USINT.tag_type):

so a negative SINT reaches USINT.produce and the whole operation list dies with
struct.error( "'B' format requires 0 <= number <= 255" ) before anything is sent.  The same value written as
(INT)-1 to an INT attribute works, and so does Write Tag with (SINT)-1.

Exit 1 while the contradiction is present, 0 if the negative SINT is written ( and read back as 0xFF ).
"""
import logging, socket, sys, threading, time

from cpppo.dotdict import apidict
from cpppo.server import enip
from cpppo.server.enip import client
from cpppo.server.enip.main import main as enip_main
from cpppo.server.enip.get_attribute import attribute_operations

logging.disable( logging.CRITICAL )
PORT				= 44872

control				= apidict( enip.timeout, { 'done': False } )
server				= threading.Thread( target=enip_main, kwargs=dict(
    argv=[ '--address', 'localhost:%d' % PORT, 'S@0x99/1/1=SINT[4]' ],
    server={ 'control': control } ))
server.daemon			= True
server.start()
for _ in range( 100 ):
    try:
        socket.create_connection( ('localhost', PORT), timeout=1 ).close()
        break
    except socket.error:
        time.sleep( .1 )

failed				= []
try:
    for tags in ( [ '@0x99/1/1=(SINT)-1,2,3,4', '@0x99/1/1' ],
                  [ '@0x99/1/1=-128,-2,127,0',    '@0x99/1/1' ] ):
        for kwds in ( dict( depth=0 ), dict( depth=2, multiple=500 )):
            try:
                with client.connector( host='localhost', port=PORT, timeout=5 ) as conn:
                    observed	= [ ( sts, val ) for idx,dsc,req,rpy,sts,val in conn.operate(
                        attribute_operations( tags ), timeout=5, **kwds ) ]
            except Exception as exc:
                observed	= "raised %r" % ( exc, )
            data		= [ v & 0xFF for v in next( iter( attribute_operations( tags[:1] )))['data'] ]
            expected		= [ ( 0, True ), ( 0, data ) ]
            print( "%-46r %-28r observed %s; expected %s" % ( tags, kwds, observed, expected ))
            if observed != expected:
                failed.append( ( tags[0], kwds ))
finally:
    control['done']		= True

if failed:
    print( "CONTRADICTION: a negative SINT value, valid for the operation text, cannot be issued with Set "
           "Attribute Single: %r" % ( failed, ))
    sys.exit( 1 )
print( "OK" )
