"""
device.parse_path_elements / parse_path accept a *default* element ( elm=... ) "if non-None ... may be
supplied"; an element the path text spells itself must win over it.  That holds for "Tag[1]" and "@1/2/3[4]",
but not for the documented 4-term numeric form "@<class>/<instance>/<attribute>/<element>": there
parse_path_component replaces the spelled element by the default.

Exit 1 while the contradiction is present.
"""
import logging, sys
from cpppo.server.enip import device, client

logging.disable( logging.CRITICAL )

cases				= [
    ( "Tag[4]",		[{'symbolic': 'Tag'}, {'element': 4}] ),
    ( "@1/2/3[4]",	[{'class': 1}, {'instance': 2}, {'attribute': 3}, {'element': 4}] ),
    ( "@1/2/3/4",	[{'class': 1}, {'instance': 2}, {'attribute': 3}, {'element': 4}] ),
    ( '@1/2/3/{"element":4}', [{'class': 1}, {'instance': 2}, {'attribute': 3}, {'element': 4}] ),
]
failed				= []
for text,expected in cases:
    assert device.parse_path( text ) == expected
    observed,elm,cnt		= device.parse_path_elements( text, elm=2 )
    print( "parse_path_elements( %-24r, elm=2 ) -> %r, %r; expected %r" % ( text, observed, elm, expected ))
    if observed != expected:
        failed.append( text )
if failed:
    print( "CONTRADICTION: the default element replaced the element spelled in: %r" % ( failed, ))
    sys.exit( 1 )
print( "OK" )
