"""
client.format_path "Raises an Exception if unrecognized"; what it does format must parse back to the same
segments.  A path with two consecutive element segments ( the EPATH of a multi-dimensional index such as
Matrix[1,2]; parse_path produces one from '@0x6b/1/{"element":1}/{"element":2}', and a caller may hand such a
segment list to any operation ) is neither refused nor kept: every element segment but the last is dropped
silently, so the description in the yielded ( index, description, ... ) tuple and the --print summary name
another element than the request on the wire addresses.  Likewise an element segment that precedes a further
numeric term is silently moved behind it.

Exit 1 while the contradiction is present; 0 if such paths are either refused or survive the round trip.
"""
import logging, sys
from cpppo.server.enip import client, device

logging.disable( logging.CRITICAL )

cases				= [
    [ {'symbolic': 'Matrix'}, {'element': 1}, {'element': 2} ],
    device.parse_path( '@0x6b/1/{"element":1}/{"element":2}' ),
    device.parse_path( '@0x6b/{"element":7}/3' ),
    [ {'symbolic': 'A'}, {'element': 1}, {'symbolic': 'B'}, {'element': 2} ],	# fine: must stay fine
]
failed				= []
for segments in cases:
    try:
        text			= client.format_path( segments )
        back			= device.parse_path( text )
    except Exception as exc:
        print( "%-72r refused: %s" % ( segments, exc ))
        continue
    print( "%-72r -> %-28r -> %r" % ( segments, text, back ))
    if back != segments:
        failed.append( segments )
if failed:
    print( "CONTRADICTION: formatted without complaint, but parsing back to other segments: %r" % ( failed, ))
    sys.exit( 1 )
print( "OK" )
