"""
client.CIP_TYPES: "We are generous with the 'signed' types (eg. SINT, INT, DINT, LINT), and we actually allow
the full unsigned range, plus the negative range.  There is little risk to doing this, as all provided values
will fit legitimately into the data type without loss."

parse_operations indeed accepts "I[0]=65535" ( INT ), "(SINT)255", "(DINT)4294967295", "(LINT)18446744073709551615"
- but nothing ever folds such a value into the signed type: the request producer packs it with the signed
struct format, and connector.issue dies with struct.error( "'h' format requires -32768 <= number <= 32767" ).
The operation the text spells ( store the 16 bits 0xFFFF ) can not be issued at all, and the failure strikes
in the middle of the list: operations before it have been sent ( and, when bundling, are lost with it ).

Exit 1 while the contradiction is present; 0 if the values are either written ( reading back as the same bit
pattern ) or already refused by parse_operations.
"""
import logging, socket, sys, threading, time

from cpppo.dotdict import apidict
from cpppo.server import enip
from cpppo.server.enip import client
from cpppo.server.enip.main import main as enip_main

logging.disable( logging.CRITICAL )
PORT				= 44877

control				= apidict( enip.timeout, { 'done': False } )
server				= threading.Thread( target=enip_main, kwargs=dict(
    argv=[ '--address', 'localhost:%d' % PORT, 'S=SINT[2]', 'I=INT[2]', 'D=DINT[2]', 'L=LINT[2]' ],
    server={ 'control': control } ))
server.daemon			= True
server.start()
for _ in range( 100 ):
    try:
        socket.create_connection( ('localhost', PORT), timeout=1 ).close()
        break
    except socket.error:
        time.sleep( .1 )

failed				= []
try:
    for tag,text,bits in ( ( 'S', '(SINT)255', 8 ), ( 'I', '65535', 16 ), ( 'I', '(INT)32768', 16 ),
                           ( 'D', '(DINT)4294967295', 32 ), ( 'L', '(LINT)18446744073709551615', 64 )):
        tags			= [ '%s[1]=%s' % ( tag, text ), '%s[1]' % ( tag ) ]
        try:
            operations		= list( client.parse_operations( tags ))
        except Exception as exc:
            print( "%-44r refused by parse_operations: %r" % ( tags, exc ))
            continue
        value			= operations[0]['data'][0]
        expected		= [ ( 0, True ), ( 0, [ value - 2**bits if value >= 2**(bits-1) else value ] ) ]
        try:
            with client.connector( host='localhost', port=PORT, timeout=5 ) as conn:
                observed	= [ ( sts, val ) for idx,dsc,req,rpy,sts,val in conn.operate( operations, timeout=5 ) ]
        except Exception as exc:
            observed		= "accepted by parse_operations, then connector.issue raised %r" % ( exc, )
        print( "%-44r observed %s; expected %s" % ( tags, observed, expected ))
        if observed != expected:
            failed.append( tags[0] )
finally:
    control['done']		= True

if failed:
    print( "CONTRADICTION: values of the documented 'extra range' are accepted but can not be issued: %r" % ( failed, ))
    sys.exit( 1 )
print( "OK" )
