"""
proxy.read / read_details ( get_attribute.py ) document the forms an attribute request may take:

    "Tag"
    ( "Tag", None, "kWh" )		-- "a type/types (may be None, to force Tag I/O), and an optional description"
    ( "@1/1/1", "INT" )
    ( "@1/1/1", "INT", "Hz" )

and proxy.is_request accepts any list-like of 2 or 3 items.  Two of the forms do not work:

  a) ( "Tag", None, "kWh" ): is_request insists on a str / type ( or list of them ) as type, so the documented
     None is refused with "Not a valid read/write target" although read_details handles typ None ( Read Tag ).
  b) [ "@0x99/1/1", "INT" ] ( a 2-item *list*, eg. straight from JSON ): passes is_request, then
     `a+(None,)` raises TypeError: can only concatenate list (not "tuple") to list.  The 3-item list works.

Exit 1 while a contradiction is present.
"""
import logging, socket, sys, threading, time

from cpppo.dotdict import apidict
from cpppo.server import enip
from cpppo.server.enip.main import main as enip_main
from cpppo.server.enip.get_attribute import proxy

logging.disable( logging.CRITICAL )
PORT				= 44878

control				= apidict( enip.timeout, { 'done': False } )
server				= threading.Thread( target=enip_main, kwargs=dict(
    argv=[ '--address', 'localhost:%d' % PORT, 'Int@0x99/1/1=INT[4]' ],
    server={ 'control': control } ))
server.daemon			= True
server.start()
for _ in range( 100 ):
    try:
        socket.create_connection( ('localhost', PORT), timeout=1 ).close()
        break
    except socket.error:
        time.sleep( .1 )

failed				= []
try:
    for request,expected in (
            ( 'Int[0-3]',			[ [0, 0, 0, 0] ] ),
            ( ( 'Int[0-3]', None, 'kWh' ),	[ [0, 0, 0, 0] ] ),	# documented; refused
            ( ( '@0x99/1/1', 'INT' ),		[ [0, 0, 0, 0] ] ),
            ( [ '@0x99/1/1', 'INT', 'Hz' ],	[ [0, 0, 0, 0] ] ),
            ( [ '@0x99/1/1', 'INT' ],		[ [0, 0, 0, 0] ] ),	# TypeError
    ):
        via			= proxy( 'localhost', PORT, timeout=5 )
        try:
            with via:
                observed	= list( via.read( [ request ] ))
        except Exception as exc:
            observed		= "raised %r" % ( exc, )
        print( "read( [ %-32r ] ) -> %s; expected %r" % ( request, observed, expected ))
        if observed != expected:
            failed.append( request )
finally:
    control['done']		= True

if failed:
    print( "CONTRADICTION: request forms that are documented / accepted by is_request can not be read: %r" % ( failed, ))
    sys.exit( 1 )
print( "OK" )
