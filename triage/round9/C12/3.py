"""
The command line help of client.main ( and get_attribute.main ) says about simple, non-routing devices:

    you may want to specify:  --send-path='' --route-path=false
    to eliminate the *Logix-style Unconnected Send (service 0x52) encapsulation

and "--send-path ... Specify an empty string '' for no Send Path".  But main() computes

    send_path = args.send_path if args.send_path else '' if args.simple else None

so the empty string the user gave is Falsey, becomes None, and None is the *default* Send Path @6/1: every
operation still goes out wrapped in an Unconnected Send ( 0x52, path 20 06 24 01 ).  Only -S/--simple really
gives the bare request.

The program relays the client's TCP stream to an in-process simulator and looks at what the client sent.
Exit 1 while the contradiction is present, 0 if --send-path='' --route-path=false sends the bare request.
"""
import logging, socket, sys, threading, time

from cpppo.dotdict import apidict
from cpppo.server import enip
from cpppo.server.enip import client, get_attribute
from cpppo.server.enip.main import main as enip_main

logging.disable( logging.CRITICAL )
PORT				= 44873
RELAY				= 44874

control				= apidict( enip.timeout, { 'done': False } )
server				= threading.Thread( target=enip_main, kwargs=dict(
    argv=[ '--address', 'localhost:%d' % PORT, 'Tag@0x99/1/1=INT[4]' ],
    server={ 'control': control } ))
server.daemon			= True
server.start()
for _ in range( 100 ):
    try:
        socket.create_connection( ('localhost', PORT), timeout=1 ).close()
        break
    except socket.error:
        time.sleep( .1 )

sent				= []		# what the clients sent, one bytearray per connection

def pump( src, dst, record=None ):
    try:
        while True:
            data		= src.recv( 4096 )
            if not data:
                break
            if record is not None:
                record.extend( data )
            dst.sendall( data )
    except socket.error:
        pass
    finally:
        try:
            dst.shutdown( socket.SHUT_WR )
        except socket.error:
            pass

def relay():
    lsn				= socket.socket( socket.AF_INET, socket.SOCK_STREAM )
    lsn.setsockopt( socket.SOL_SOCKET, socket.SO_REUSEADDR, 1 )
    lsn.bind( ('127.0.0.1', RELAY) )
    lsn.listen( 5 )
    while True:
        cli,_			= lsn.accept()
        svr			= socket.create_connection( ('localhost', PORT) )
        sent.append( bytearray() )
        for args in ( (cli, svr, sent[-1]), (svr, cli) ):
            t			= threading.Thread( target=pump, args=args )
            t.daemon		= True
            t.start()

relayer				= threading.Thread( target=relay )
relayer.daemon			= True
relayer.start()
time.sleep( .2 )

UNCONNECTED_SEND		= b'\x52\x02\x20\x06\x24\x01'	# service 0x52, 2 words: class 6, instance 1

def wrapped( main, argv ):
    status			= main( argv=[ '--address', '127.0.0.1:%d' % RELAY ] + argv )
    assert status == 0, "%r failed" % ( argv, )
    return UNCONNECTED_SEND in bytes( sent[-1] )

failed				= []
try:
    for name,main,tag in ( ( 'client.main', client.main, 'Tag[0-1]' ),
                           ( 'get_attribute.main', get_attribute.main, '@0x99/1/1' )):
        default			= wrapped( main, [ tag ] )
        simple			= wrapped( main, [ '--simple', tag ] )
        asdoc			= wrapped( main, [ '--send-path=', '--route-path=false', tag ] )
        print( "%-20s Unconnected Send (0x52) wrapper on the wire: default %s, --simple %s, "
               "--send-path='' --route-path=false %s ( expected %s )" % ( name, default, simple, asdoc, False ))
        assert default and not simple, "the probe itself is broken"
        if asdoc:
            failed.append( name )
finally:
    control['done']		= True

if failed:
    print( "CONTRADICTION: %s: --send-path='' is taken for 'not given' and replaced by the default @6/1; "
           "the request is still wrapped in an Unconnected Send" % ( ', '.join( failed ), ))
    sys.exit( 1 )
print( "OK" )
