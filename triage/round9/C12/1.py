"""
proxy.read of an attribute declared as CIP type "WORD" or "DWORD" ( both are in proxy.CIP_TYPES ) never
reaches the wire: connector.issue estimates the reply size with typed_data.datasize( tag_type ), and
typed_data.TYPES_SUPPORTED knows neither WORD ( 0xD2 ) nor DWORD ( 0xD3 ), so issue() raises
AssertionError( "Unknown tag_type 210" ) - for every depth / multiple setting.  The same attribute read as
"UINT" / "UDINT" ( same widths ) works.

Exit 1 while the contradiction is present, 0 if the typed reads yield the values.
"""
import logging, socket, sys, threading, time

from cpppo.dotdict import apidict
from cpppo.server import enip
from cpppo.server.enip import client
from cpppo.server.enip.main import main as enip_main
from cpppo.server.enip.get_attribute import proxy

logging.disable( logging.CRITICAL )
PORT				= 44871

control				= apidict( enip.timeout, { 'done': False } )
server				= threading.Thread( target=enip_main, kwargs=dict(
    argv=[ '--address', 'localhost:%d' % PORT, 'W@0x99/1/1=UINT[2]', 'D@0x99/1/2=UDINT[2]' ],
    server={ 'control': control } ))
server.daemon			= True
server.start()
for _ in range( 100 ):
    try:
        socket.create_connection( ('localhost', PORT), timeout=1 ).close()
        break
    except socket.error:
        time.sleep( .1 )

failed				= []
try:
    for att,good,typ in ( ('@0x99/1/1','UINT','WORD'), ('@0x99/1/2','UDINT','DWORD') ):
        for kwds in ( dict( depth=0 ), dict( depth=2 ), dict( depth=2, multiple=500 )):
            results		= {}
            for t in ( good, typ ):
                via		= proxy( 'localhost', PORT, timeout=5, **kwds )
                try:
                    with via:
                        results[t] = list( via.read( [ ( att, t ) ] ))
                except Exception as exc:
                    results[t] = "raised %r" % ( exc, )
            print( "%-10s %-24r as %-5s: %-14s as %-5s: %s" % (
                att, kwds, good, results[good], typ, results[typ] ))
            if results[typ] != results[good]:
                failed.append( ( att, typ, kwds ))
finally:
    control['done']		= True

if failed:
    print( "CONTRADICTION: expected the WORD / DWORD reads to yield what the UINT / UDINT reads yield; "
           "observed an exception out of connector.issue's reply size estimate for: %r" % ( failed, ))
    sys.exit( 1 )
print( "OK" )
