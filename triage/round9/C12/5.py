"""
device.parse_path's documentation: "any numeric data (eg. class, instance, attribute or element numbers)
default to integer (eg. 26), but may be escaped with the normal base indicators (eg. 0x1A, 0o49, 0b100110)".
Class / instance / attribute terms, the 4th "/<element>" term and the "*<count>" go through parse_int and
honour that; the bracketed element index and range use a bare int() and refuse the same numbers, so
"Tag[0x10]" is a ValueError while "@1/2/3/0x10" and "Tag*0x10" are fine.

Exit 1 while the contradiction is present.
"""
import logging, sys
from cpppo.server.enip import device, client

logging.disable( logging.CRITICAL )

cases				= [
    ( "@0x1/0b10/0o3/0x10",	( [{'class': 1}, {'instance': 2}, {'attribute': 3}, {'element': 16}], None, None )),
    ( "Tag*0x10",		( [{'symbolic': 'Tag'}], None, 16 )),
    ( "Tag[0x10]",		( [{'symbolic': 'Tag'}, {'element': 16}], 16, None )),
    ( "Tag[0x10-0x1F]",		( [{'symbolic': 'Tag'}, {'element': 16}], 16, 16 )),
    ( "@1/2/3[0b11]",		( [{'class': 1}, {'instance': 2}, {'attribute': 3}, {'element': 3}], 3, None )),
]
failed				= []
for text,expected in cases:
    try:
        observed		= device.parse_path_elements( text )
    except Exception as exc:
        observed		= "raised %r" % ( exc, )
    print( "parse_path_elements( %-22r ) -> %s; expected %r" % ( text, observed, expected ))
    if observed != expected:
        failed.append( text )
    else:
        try:
            ops			= list( client.parse_operations( [ text ] ))
            assert ops[0]['path'] == expected[0]
        except Exception as exc:
            failed.append( text )
if failed:
    print( "CONTRADICTION: element numbers with a base indicator are refused in: %r" % ( failed, ))
    sys.exit( 1 )
print( "OK" )
