"""
connector.issue( multiple=N ) promises to "estimate the size of both the request and the reply, and attempt to
ensure neither exceeds the target 'multiple' request and/or response size".  The estimate of the operation
that makes a bundle overflow is dropped: after the flush the operation is queued, but reqsiz / rpysiz restart
at the bare 68 octets of overhead without it.  The next operation is therefore admitted as if the bundle were
empty, and every bundle after the first carries one operation more than the limit allows.

Seven reads of 150 INTs ( 300 octets of reply data each; the type is given, so the estimate is exact ) under
multiple=500: no two of them fit one Multiple Service Packet ( 68 + 304 + 304 > 500 ), and the first one is
indeed sent alone - but the following ones go out in pairs, whose replies carry 600 octets of data.

Exit 1 while the contradiction is present, 0 if every bundle of more than one operation stays under the limit.
"""
import logging, socket, sys, threading, time

from cpppo.dotdict import apidict
from cpppo.server import enip
from cpppo.server.enip import client
from cpppo.server.enip.main import main as enip_main

logging.disable( logging.CRITICAL )
PORT				= 44876
LIMIT				= 500

control				= apidict( enip.timeout, { 'done': False } )
server				= threading.Thread( target=enip_main, kwargs=dict(
    argv=[ '--address', 'localhost:%d' % PORT, 'Int=INT[200]' ],
    server={ 'control': control } ))
server.daemon			= True
server.start()
for _ in range( 100 ):
    try:
        socket.create_connection( ('localhost', PORT), timeout=1 ).close()
        break
    except socket.error:
        time.sleep( .1 )

try:
    operations			= list( client.parse_operations( [ 'Int[0-149]' ] * 7, tag_type=enip.INT.tag_type ))
    packets			= {}
    with client.connector( host='localhost', port=PORT, timeout=5 ) as conn:
        for idx,dsc,req,rpy,sts,val in conn.operate( operations, depth=0, multiple=LIMIT, timeout=5 ):
            assert sts == 0 and len( val ) == 150
            packets.setdefault( idx, [] ).append( 2 * len( val ))	# octets of INT data in the reply
finally:
    control['done']		= True

failed				= []
for idx,sizes in sorted( packets.items() ):
    print( "Multiple Service Packet %d: %d operations, %4d octets of reply data ( limit %d )" % (
        idx, len( sizes ), sum( sizes ), LIMIT ))
    if len( sizes ) > 1 and sum( sizes ) >= LIMIT:
        failed.append( idx )
if failed:
    print( "CONTRADICTION: expected 7 packets of 1 operation; observed packets %r bundling operations whose "
           "replies exceed the limit on their own" % ( failed, ))
    sys.exit( 1 )
print( "OK" )
