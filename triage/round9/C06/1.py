#!/usr/bin/env python
"""
C06 defect 1 (unchanged code): a complete, well-formed EtherNet/IP frame whose command the server does
not support (eg. 0x0005, IndicateStatus 0x0072, 0x9999; with or without payload) is not answered at all:
the session is dropped without a single frame.

Expected (property C06): "an unsupported or unroutable request is answered by one frame with a non-zero
encapsulation status" -- one frame, command / sender context / session handle of the request, status != 0
(eg. 0x0001 "invalid or unsupported encapsulation command").

Observed: zero frames, connection closed by the server.  logix.process runs the parser.CIP over the
request before UCMM.request is called; parser.CIP has no transition for an unknown .command (its
'unrec_CIP' decide returns False), the parse ends NonTerminal, the exception leaves logix.process and
enip_srv_tcp ends the session.  UCMM.request's own branch for this case ("CIP request %r unsupported"
--> status 0x08) is never reached.

Exit 1 while the contradiction is present, 0 if the server answers with one non-zero status frame.
"""
from __future__ import print_function

import logging
import socket
import struct
import sys
import threading
import time

import cpppo
from cpppo.server import enip
from cpppo.server.enip.main import main as enip_main

PORT				= 44818


def start_simulator():
    enip.lookup_reset()
    control			= cpppo.apidict( enip.timeout, { 'done': False } )
    kwds			= {
        'argv':		[ '--address', 'localhost:%d' % PORT, 'SCADA=INT[100]' ],
        'server':	{ 'control': control },
    }
    thread			= threading.Thread( target=enip_main, kwargs=kwds )
    thread.daemon		= True
    thread.start()
    for _ in range( 200 ):
        try:
            socket.create_connection( ('localhost', PORT), timeout=1 ).close()
            break
        except Exception:
            time.sleep( .05 )
    return control


def enip_frame( command, payload=b'', session=0, context=b'\0'*8 ):
    return struct.pack( '<HHII', command, len( payload ), session, 0 ) + context + struct.pack( '<I', 0 ) + payload


def receive( sock, timeout ):
    data,eof			= b'',False
    deadline			= time.time() + timeout
    while time.time() < deadline and not eof:
        sock.settimeout( max( .01, deadline - time.time() ))
        try:
            got			= sock.recv( 65536 )
        except socket.timeout:
            break
        except socket.error:
            got			= b''
        if not got:
            eof			= True
        data		       += got
    frames			= []
    while len( data ) >= 24:
        command,length,session,status = struct.unpack( '<HHII', data[:12] )
        if len( data ) < 24 + length:
            break
        frames.append( dict( command=command, session=session, status=status, context=data[12:20],
                             payload=data[24:24+length] ))
        data			= data[24+length:]
    return frames,eof


def main():
    logging.basicConfig( level=logging.CRITICAL )
    logging.getLogger().setLevel( logging.CRITICAL )
    control			= start_simulator()
    failed			= 0
    try:
        for command,payload in [ (0x0005, b''), (0x0072, b''), (0x9999, b'\x01\x02') ]:
            sock		= socket.create_connection( ('localhost', PORT), timeout=5 )
            sock.sendall( enip_frame( 0x0065, struct.pack( '<HH', 1, 0 )))
            frames,_		= receive( sock, .5 )
            session		= frames[0]['session']
            sock.sendall( enip_frame( command, payload, session=session, context=b'unknown!' ))
            frames,eof		= receive( sock, 1.5 )
            ok			= ( len( frames ) == 1 and frames[0]['status'] != 0
                                    and frames[0]['context'] == b'unknown!' and frames[0]['session'] == session )
            print( "command 0x%04x: observed %d reply frame(s)%s, connection %s; expected exactly 1 frame with a non-zero status: %s" % (
                command, len( frames ),
                "".join( " [command 0x%04x status 0x%x context %r]" % ( f['command'], f['status'], f['context'] ) for f in frames ),
                "closed by server" if eof else "open", "ok" if ok else "CONTRADICTION" ))
            failed	       += 0 if ok else 1
            sock.close()
    finally:
        control.done		= True
    return 1 if failed else 0


if __name__ == "__main__":
    sys.exit( main() )
