#!/usr/bin/env python
"""
C06 defect 2 (unchanged code): a Read Tag Fragmented (service 0x52) that is routed by the gateway UCMM to
another cpppo simulator over the LAST hop of its route path is not answered by a 0xD2 reply, but by an
empty frame with encapsulation status 0x65 -- and the originator's session is closed.  The very same
Unconnected Send carrying a Read Tag (0x4C) of the same tag is answered properly.

Input: SendRRData [ NULL address, Unconnected Send ( path 6/1, route path [port 1, link 1], request =
Read Tag Fragmented T, 2 elements, offset 0 ) ] to a gateway configured with route "1/1" --> second simulator.

Expected (C06): supported service, routable request: one reply with service 0x52|0x80 == 0xD2 in the same
SendRRData framing, encapsulation status 0, session continues.

Observed: one frame, status 0x65, no payload, session closed.  UCMM.request strips ALL routing
encapsulation once the remaining route path is empty ( sub_sp = '' --> client.unconnected_send sends the bare
request ); the target's parser.unconnected_send takes any bare item beginning with 0x52 for an Unconnected
Send, mis-parses the Read Tag Fragmented, and answers status 0x08; the gateway reports that as 0x65.
A possible repair: keep an (empty route path) Unconnected Send wrapper for the last hop when the carried
request begins with 0x52.

Exit 1 while the contradiction is present, 0 otherwise.
"""
from __future__ import print_function

import logging
import os
import socket
import struct
import subprocess
import sys
import threading
import time

import cpppo
from cpppo.server import enip
from cpppo.server.enip import ucmm
from cpppo.server.enip.main import main as enip_main

GATEWAY				= 44818
TARGET				= 44819


def await_port( port ):
    for _ in range( 300 ):
        try:
            socket.create_connection( ('localhost', port), timeout=1 ).close()
            return True
        except Exception:
            time.sleep( .1 )
    return False


def enip_frame( command, payload=b'', session=0, context=b'\0'*8 ):
    return struct.pack( '<HHII', command, len( payload ), session, 0 ) + context + struct.pack( '<I', 0 ) + payload


def send_rr_data( cip, session, context ):
    payload			= struct.pack( '<IHH', 0, 5, 2 ) + struct.pack( '<HH', 0, 0 ) \
                                  + struct.pack( '<HH', 0x00b2, len( cip )) + cip
    return enip_frame( 0x006f, payload, session=session, context=context )


def symbolic( name ):
    raw				= name.encode( 'ascii' )
    seg				= b'\x91' + struct.pack( 'B', len( raw )) + raw + ( b'\0' if len( raw ) % 2 else b'' )
    return struct.pack( 'B', len( seg ) // 2 ) + seg


def unconnected_send( request, route ):
    return b'\x52\x02\x20\x06\x24\x01\x05\x9d' + struct.pack( '<H', len( request )) + request \
        + ( b'\0' if len( request ) % 2 else b'' ) + route


def receive( sock, count, timeout ):
    data,eof			= b'',False
    frames			= []
    deadline			= time.time() + timeout
    while time.time() < deadline and not eof and len( frames ) < count:
        sock.settimeout( max( .01, deadline - time.time() ))
        try:
            got			= sock.recv( 65536 )
        except socket.timeout:
            break
        except socket.error:
            got			= b''
        if not got:
            eof			= True
        data		       += got
        while len( data ) >= 24:
            command,length,session,status = struct.unpack( '<HHII', data[:12] )
            if len( data ) < 24 + length:
                break
            frames.append( dict( command=command, session=session, status=status, context=data[12:20],
                                 payload=data[24:24+length] ))
            data		= data[24+length:]
    return frames,eof


def main():
    logging.basicConfig( level=logging.CRITICAL )
    logging.getLogger().setLevel( logging.CRITICAL )
    env				= dict( os.environ )
    target			= subprocess.Popen(
        [ sys.executable, '-c',
          'import sys; from cpppo.server.enip.main import main; sys.exit( main( argv=sys.argv[1:] ))',
          '--address', 'localhost:%d' % TARGET, 'T=INT[10]' ],
        env=env, stdout=open( os.devnull, 'w' ), stderr=subprocess.STDOUT )
    control			= cpppo.apidict( enip.timeout, { 'done': False } )
    try:
        assert await_port( TARGET ), "target simulator did not start"

        class UCMM_routed( ucmm.UCMM ):
            route		= { "1/1": "localhost:%d" % TARGET }

        enip.lookup_reset()
        kwds			= {
            'argv':		[ '--address', 'localhost:%d' % GATEWAY, 'L=INT[10]' ],
            'server':		{ 'control': control },
            'UCMM_class':	UCMM_routed,
        }
        thread			= threading.Thread( target=enip_main, kwargs=kwds )
        thread.daemon		= True
        thread.start()
        assert await_port( GATEWAY ), "gateway simulator did not start"
        logging.getLogger().setLevel( logging.CRITICAL )

        route			= b'\x01\x00\x01\x01'	# 1 word: port 1, link 1
        read_tag		= b'\x4c' + symbolic( 'T' ) + b'\x02\x00'
        read_frag		= b'\x52' + symbolic( 'T' ) + b'\x02\x00' + b'\x00\x00\x00\x00'

        sock			= socket.create_connection( ('localhost', GATEWAY), timeout=5 )
        sock.sendall( enip_frame( 0x0065, struct.pack( '<HH', 1, 0 )))
        frames,_		= receive( sock, 1, 2 )
        session			= frames[0]['session']

        sock.sendall( send_rr_data( unconnected_send( read_tag, route ), session, b'readtag.' ))
        frames,eof		= receive( sock, 1, 8 )
        assert len( frames ) == 1 and frames[0]['status'] == 0 and frames[0]['payload'][16:17] == b'\xcc', \
            "routed Read Tag not answered as expected (routing itself is broken?): %r" % ( frames, )
        print( "routed Read Tag          (0x4c): status 0x%x, reply service 0x%02x" % (
            frames[0]['status'], bytearray( frames[0]['payload'][16:17] )[0] ))

        sock.sendall( send_rr_data( unconnected_send( read_frag, route ), session, b'readfrag' )
                      + send_rr_data( unconnected_send( read_tag, route ), session, b'readtag2' ))
        frames,eof		= receive( sock, 2, 8 )
        sock.close()
        first			= frames[0] if frames else None
        ok			= ( len( frames ) == 2 and first['status'] == 0 and first['context'] == b'readfrag'
                                    and first['payload'][16:17] == b'\xd2' and frames[1]['context'] == b'readtag2' )
        print( "routed Read Tag Fragmented (0x52) + one more request: observed %d frame(s)%s, connection %s" % (
            len( frames ),
            "".join( " [status 0x%x context %r service %s]" % (
                f['status'], f['context'], f['payload'][16:17].hex() if hasattr( bytes, 'hex' ) else repr( f['payload'][16:17] ))
                     for f in frames ),
            "closed by server" if eof else "open" ))
        print( "expected 2 frames: [status 0x0 context b'readfrag' service d2] [status 0x0 context b'readtag2' service cc], connection open: %s" % (
            "ok" if ok else "CONTRADICTION" ))
        return 0 if ok else 1
    finally:
        control.done		= True
        target.kill()
        target.wait()


if __name__ == "__main__":
    sys.exit( main() )
