#!/usr/bin/env python
"""
Defect 3: a tag that is auto-allocated in the Message Router takes the Attribute number that a later tag
of the configuration is explicitly bound to -- and the two tags silently become one.

Configuration 'A=DINT[4] B@2/1/1=DINT[4]' ( in this order ): setup_tag() gives A the first free Attribute of
the Message Router, 2/1/1; B is then bound to "the existing Attribute" 2/1/1.  With 'B@2/1/1=DINT[4]
A=DINT[4]' the tags are independent ( A gets 2/1/2 ), and with different types ( 'A=INT ...' ) the simulator
refuses the configuration ( "Incompatible Attribute types" ) -- so this is a conflict, not a feature.

expected: A and B are two tags: after Write Tag A = 1, 2, 3, 4 a Read Tag B returns B's own [0, 0, 0, 0]
observed: both names resolve to 2/1/1; Read Tag B returns [1, 2, 3, 4]
"""
from __future__ import print_function
import os, sys
sys.path.insert( 0, os.path.dirname( os.path.abspath( __file__ )))
from common import *

bad = []
for order in ( ( 'B', 'A' ), ( 'A', 'B' ) ):
    config = { 'A': ( 'A', parser.DINT, [0] * 4, None ), 'B': ( 'B', parser.DINT, [0] * 4, '@2/1/1' ) }
    router = simulator( [ config[n] for n in order ] )
    wr = transact( router, { 'path': path( 'A' ), 'write_tag': { 'type': parser.DINT.tag_type, 'data': [ 1, 2, 3, 4 ] }} )
    rd = transact( router, { 'path': path( 'B' ), 'read_tag': { 'elements': 4 }} )
    got = list( rd.read_tag.data ) if rd.status == 0 else None
    print( "configured %s then %s: A at %r, B at %r; Write Tag A status 0x%02x; Read Tag B status 0x%02x %r" % (
        order[0], order[1], device.resolve_tag( 'A' ), device.resolve_tag( 'B' ), wr.status, rd.status, got ))
    if device.resolve_tag( 'A' ) == device.resolve_tag( 'B' ) or got != [ 0 ] * 4:
        bad.append( "configured %s then %s: expected B == [0, 0, 0, 0] at an address of its own; observed %r, A at %r, B at %r" % (
            order[0], order[1], got, device.resolve_tag( 'A' ), device.resolve_tag( 'B' )))

if bad:
    print( "CONTRADICTION:" )
    for b in bad:
        print( " - " + b )
    sys.exit( 1 )
print( "OK" )
