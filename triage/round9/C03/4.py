#!/usr/bin/env python
"""
Defect 4: the simulator's tag table ( the module-level cpppo.server.enip.main.tags ) survives the end of
main(): a second simulator started in the same process ( as the test-suite and any embedding program does,
after device.lookup_reset() ) serves the *first* simulator's data.

run 1:  main( 'X@0x22/1/1=DINT[4]', 'P=INT[2]' ); Write Tag X = 1, 2, 3, 4 and P = 7, 8; shut down
        lookup_reset(), setup_reset()   -- every CIP Object and every tag is gone
run 2:  main( 'X@0x22/1/1=DINT[4]', 'Q=INT[2]' ); nothing is written

expected in run 2: Read Tag X == [0, 0, 0, 0] ( never written ), Read Tag P refused ( no such tag )
observed in run 2: Read Tag X == [1, 2, 3, 4] ( main() finds the stale entry X in 'tags' at the same address, and
                   re-uses its Attribute ), Read Tag P == [7, 8] ( the stale entry is configured again )

Uses localhost ports 44911 and 44912.
"""
from __future__ import print_function
import logging
import sys
import threading
import time

import cpppo
from cpppo.server import enip
from cpppo.server.enip import client, device, logix
from cpppo.server.enip.main import main as enip_main

logging.disable( logging.CRITICAL )


def simulate( port, tags, operations ):
    """Run a simulator ( main() ) on localhost:port serving tags, perform operations, shut it down"""
    control			= cpppo.apidict( enip.timeout, { 'done': False } )
    thread			= threading.Thread( target=enip_main, kwargs={
        'argv': [ '--address', 'localhost:%d' % port ] + tags, 'server': { 'control': control }} )
    thread.daemon		= True
    thread.start()
    results			= {}
    try:
        for attempt in range( 50 ):
            try:
                conn		= client.connector( host='localhost', port=port, timeout=5 )
                break
            except Exception:
                time.sleep( .1 )
        with conn:
            for idx,dsc,op,rpy,sts,val in conn.synchronous( operations=client.parse_operations( operations )):
                results[operations[idx]] = ( sts, val )
    finally:
        control.done		= True
        thread.join( 10 )
    return results


device.lookup_reset()
logix.setup_reset()
first = simulate( 44911, [ 'X@0x22/1/1=DINT[4]', 'P=INT[2]' ],
                  [ 'X[0-3]=(DINT)1,2,3,4', 'P[0-1]=(INT)7,8', 'X[0-3]', 'P[0-1]' ] )
print( "run 1: %r" % ( first, ))
assert first['X[0-3]'] == ( 0, [ 1, 2, 3, 4 ] ) and first['P[0-1]'] == ( 0, [ 7, 8 ] ), "run 1 failed"

device.lookup_reset()
logix.setup_reset()
second = simulate( 44912, [ 'X@0x22/1/1=DINT[4]', 'Q=INT[2]' ],
                   [ 'X[0-3]', 'Q[0-1]', 'P[0-1]' ] )
print( "run 2: %r" % ( second, ))

bad = []
if second['X[0-3]'] != ( 0, [ 0, 0, 0, 0 ] ):
    bad.append( "X, never written in run 2: expected ( 0, [0, 0, 0, 0] ), observed %r" % ( second['X[0-3]'], ))
if second['Q[0-1]'] != ( 0, [ 0, 0 ] ):
    bad.append( "Q: expected ( 0, [0, 0] ), observed %r" % ( second['Q[0-1]'], ))
if second['P[0-1]'][0] == 0:
    bad.append( "P, not configured in run 2: expected a refusal, observed %r" % ( second['P[0-1]'], ))
if bad:
    print( "CONTRADICTION:" )
    for b in bad:
        print( " - " + b )
    sys.exit( 1 )
print( "OK" )
