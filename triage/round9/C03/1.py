#!/usr/bin/env python
"""
Defect 1: a tag whose multi-segment symbolic name begins with the name of another tag cannot be
addressed.

Tags 'A' ( INT[4] ) and 'A.foo' ( DINT[3] ) are both configured ( 'A=INT[4] A.foo=DINT[3]' ); the
symbol table holds both.  A request for A.foo arrives as the symbolic segments 'A', 'foo' ( that is
how every client encodes a dotted name ): device.resolve() takes the first segment for the complete
tag 'A' and then fails on 'foo'.  'B.bar' ( no tag 'B' ) works.

expected: Write Tag A.foo[1] = 11, 22 succeeds; Read Tag A.foo returns [0, 11, 22]; A unchanged
observed: status 0x05 for every request that names A.foo
"""
from __future__ import print_function
import os, sys
sys.path.insert( 0, os.path.dirname( os.path.abspath( __file__ )))
from common import *

router = simulator( [
    ( 'A',	parser.INT,	[0] * 4,	None ),
    ( 'A.foo',	parser.DINT,	[0] * 3,	None ),
    ( 'B.bar',	parser.DINT,	[0] * 3,	None ),
] )

bad = []
for tag in ( 'B.bar', 'A.foo' ):
    wr = transact( router, { 'path': path( tag + '[1]' ), 'write_tag': { 'type': parser.DINT.tag_type, 'data': [ 11, 22 ] }} )
    rd = transact( router, { 'path': path( tag ), 'read_tag': { 'elements': 3 }} )
    got = list( rd.read_tag.data ) if rd.status == 0 else None
    print( "%-6s at %r: Write Tag status 0x%02x, Read Tag status 0x%02x data %r" % (
        tag, device.resolve_tag( tag ), wr.status, rd.status, got ))
    if wr.status != 0 or rd.status != 0 or got != [ 0, 11, 22 ]:
        bad.append( "%s: expected statuses 0x00 / 0x00 and [0, 11, 22]; observed 0x%02x / 0x%02x and %r" % (
            tag, wr.status, rd.status, got ))
rd = transact( router, { 'path': path( 'A' ), 'read_tag': { 'elements': 4 }} )
if rd.status != 0 or list( rd.read_tag.data ) != [ 0 ] * 4:
    bad.append( "A: expected untouched [0, 0, 0, 0]; observed status 0x%02x %r" % ( rd.status, rd.read_tag ))

if bad:
    print( "CONTRADICTION:" )
    for b in bad:
        print( " - " + b )
    sys.exit( 1 )
print( "OK" )
