#!/usr/bin/env python
"""
Defect 2: a Read / Write Tag Fragmented of a STRING / SSTRING tag converts its *byte* offset with the
80-octet "average size used for estimations" -- an offset of 80 is served from / stored into element 1,
whatever the strings hold.

S = SSTRING[4] holding 'aaaaaaaaaa', 'bbbbbbbbbb', 'cccccccccc', 'dddddddddd' ( 4 x 11 = 44 octets on the
wire ).  logix.py documents that a non-zero offset is not supported for these types, and refuses eg.
offset 44 ( the true end of the data ) or 11 ( the true start of element 1 ) -- but it lets every
multiple of 80 through.

expected: Read Tag Fragmented S, 4 elements, offset 80: refused ( the data is 44 octets long ), as it
          is for every other non-zero offset; likewise Write Tag Fragmented at offset 80, which must not
          change anything
observed: the read returns status 0x00 and [ 'bbbbbbbbbb', 'cccccccccc', 'dddddddddd' ]; the write
          returns status 0x00 and replaces element 1
"""
from __future__ import print_function
import os, sys
sys.path.insert( 0, os.path.dirname( os.path.abspath( __file__ )))
from common import *

initial = [ 'a' * 10, 'b' * 10, 'c' * 10, 'd' * 10 ]
bad = []
for cls in ( parser.SSTRING, parser.STRING ):
    router = simulator( [ ( 'S', cls, list( initial ), None ) ] )
    for off in ( 11, 12, 44, 48, 80, 160 ):
        rd = transact( router, { 'path': path( 'S' ), 'read_frag': { 'elements': 4, 'offset': off }} )
        got = list( rd.read_frag.data ) if rd.status in ( 0, 6 ) else None
        print( "%-7s Read Tag Fragmented S*4 offset %3d: status 0x%02x %r" % ( cls.__name__, off, rd.status, got ))
        if rd.status in ( 0, 6 ):
            bad.append( "%s read at offset %d: expected a refusal, observed status 0x%02x and %r" % (
                cls.__name__, off, rd.status, got ))
    wr = transact( router, { 'path': path( 'S' ), 'write_frag': {
        'type': cls.tag_type, 'elements': 4, 'offset': 80, 'data': [ 'ZZ' ] }} )
    now = list( device.lookup( *device.resolve_tag( 'S' ))[0:4] )
    print( "%-7s Write Tag Fragmented S*4 offset  80 'ZZ': status 0x%02x; S == %r" % ( cls.__name__, wr.status, now ))
    if wr.status == 0 or now != initial:
        bad.append( "%s write at offset 80: expected a refusal and S unchanged, observed status 0x%02x and %r" % (
            cls.__name__, wr.status, now ))

if bad:
    print( "CONTRADICTION:" )
    for b in bad:
        print( " - " + b )
    sys.exit( 1 )
print( "OK" )
