"""Helpers shared by the reproducers in this directory: an in-process Logix simulator whose requests
are encoded, parsed, executed and whose encoded replies are parsed again -- as on the wire."""
import logging

import cpppo
from cpppo.server.enip import device, logix, parser

logging.disable( logging.CRITICAL )


def tag_entry( name, type_cls, default, address=None ):
    """What cpppo.server.enip.main prepares for a 'name[@address]=TYPE[size]' tag"""
    entry			= cpppo.dotdict()
    entry.attribute		= device.Attribute( name, type_cls, default=default )
    entry.path			= { 'segment': device.parse_path( address ) } if address else None
    entry.error			= 0x00
    return entry


def simulator( config ):
    """config: [ ( name, type_cls, default, address-or-None ), ... ] in command-line order"""
    device.lookup_reset()
    logix.setup_reset()
    tags			= cpppo.dotdict()
    for name,cls,default,address in config:
        dict.__setitem__( tags, name, tag_entry( name, cls, default, address ))
    logix.setup( tags=tags )
    return device.lookup( 0x02, 1 )


def path( text ):
    return { 'segment': [ cpppo.dotdict( s ) for s in device.parse_path( text ) ] }


def transact( router, request ):
    encoded			= router.produce( cpppo.dotdict( request ))
    req				= cpppo.dotdict()
    with router.parser as machine:
        for _ in machine.run( source=cpppo.rememberable( encoded ), data=req ):
            pass
    router.request( req )
    rpy				= cpppo.dotdict()
    with router.parser as machine:
        for _ in machine.run( source=cpppo.rememberable( bytes( req.input )), data=rpy ):
            pass
    return rpy
