"""C04 defect 1 (unchanged code): a Read Tag Fragmented request sent "simple" -- directly in the SendRRData
CPF item, without the Unconnected Send (0x52) wrapper; what cpppo's own client produces for route_path=False,
send_path='' (command line: -S --fragment, or any TAG[..]+offset) -- is mistaken for an Unconnected Send,
because both services share the code 0x52.  The request is not answered at all: the session is terminated
with EtherNet/IP status 0x08.  Write Tag Fragmented (0x53) and Read Tag (0x4C) sent the same way work, so
a range written fragment by fragment over such a session cannot be moved back with the fragmented service.

Expected: the same fragments ( 0x06 ..., 0x00 ) as when the request is wrapped in an Unconnected Send; the
request's path ( a tag, not the Connection Manager @6/1 ) tells the two services apart.

Exits 1 (printing observed vs. expected) while the contradiction is present, 0 otherwise.
"""
from __future__ import print_function

import errno
import socket
import sys
import threading
import time

import cpppo
from cpppo.server import enip
from cpppo.server.enip import client
from cpppo.server.enip.main import main as enip_main

ADDR				= ('localhost', 44824)
COUNT				= 300 # DINTs: 1200 bytes, 3 fragments of <= 488 bytes


def connect():
    for _ in range( 100 ):
        try:
            return client.connector( host=ADDR[0], port=ADDR[1], timeout=5.0 )
        except socket.error as exc:
            if exc.errno != errno.ECONNREFUSED:
                raise
            time.sleep( .1 )
    raise AssertionError( "simulator did not start" )


def walk( conn, **paths ):
    """Read D[0-299] by Read Tag Fragmented, advancing the offset by what was received"""
    got,off,frags		= [],0,[]
    while True:
        (idx,dsc,op,rpy,sts,val), = conn.operate(
            [ dict( path='D[0]', elements=COUNT, offset=off, method='read', **paths ) ], timeout=5.0 )
        frags.append(( sts, len( val ) if val else val ))
        if sts not in (0x00, 0x06) or not val:
            return got,frags
        got		       += val
        off		       += 4 * len( val )
        if not sts:
            return got,frags


def main():
    kwds			= cpppo.dotdict({
        'argv':	[ '--address', '%s:%d' % ADDR, 'D=DINT[%d]' % COUNT ],
        'server': { 'control': cpppo.apidict( enip.timeout, { 'done': False } ) },
    })
    server			= threading.Thread( target=enip_main, kwargs=kwds )
    server.daemon		= True
    server.start()
    values			= [ 1000 + i for i in range( COUNT ) ]
    simple			= dict( route_path=False, send_path='' )
    problem			= None
    try:
        with connect() as conn:
            # Write Tag Fragmented, "simple" (no Unconnected Send wrapper): works
            ops			= [ dict( path='D[0]', elements=COUNT, offset=4*b, data=values[b:b+100],
                                          tag_type=enip.DINT.tag_type, method='write', **simple )
                                    for b in range( 0, COUNT, 100 ) ]
            stss		= [ s for i,d,o,r,s,v in conn.operate( ops, timeout=5.0 ) ]
            assert not any( stss ), "simple Write Tag Fragmented failed: %r" % ( stss, )
            # Read Tag Fragmented, wrapped in an Unconnected Send: works
            got,frags		= walk( conn )
            assert got == values, "wrapped Read Tag Fragmented failed: %r" % ( frags, )
            print( "wrapped in Unconnected Send: fragments (status,elements) %r" % ( frags, ))
            # Read Tag Fragmented, "simple"
            try:
                got,frags	= walk( conn, **simple )
                print( "simple (no wrapper):         fragments (status,elements) %r" % ( frags, ))
                if got != values:
                    problem	= "fragments %r did not deliver the %d elements" % ( frags, COUNT )
            except Exception as exc:
                problem		= "the request was not answered, and the session ended: %r" % ( exc, )
    finally:
        kwds.server.control.done= True
        server.join( 2.0 )

    if problem:
        print( "OBSERVED: simple Read Tag Fragmented of D[0-%d]: %s" % ( COUNT-1, problem ))
        print( "EXPECTED: fragments with status 0x06, 0x06, 0x00 carrying the %d elements, as for the wrapped request" % COUNT )
        return 1
    print( "simple Read Tag Fragmented delivered all %d elements" % COUNT )
    return 0


if __name__ == "__main__":
    sys.exit( main() )
