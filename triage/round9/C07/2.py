#!/usr/bin/env python
"""C07 defect 2: an unusable offset of ONE member of a Multiple Service Packet takes the member AHEAD
of it with it.

The packet carries three well-formed requests ( Read Tag A[0-1], Read Tag X, Read Tag R[0-1] ); the
offset table locates the first and the third exactly, but the second entry is garbage ( 0xFFFF, or 0 ).
state_multiple_service.closure takes the extent of member i from offsets[i] .. offsets[i+1]; when
offsets[i+1] is unusable it declares member i "no such request" too, although offsets[i] locates a
complete request: member 0 is answered 80 00 08 00 instead of the reply the same request gets alone
( and a write in that position would silently not be executed ).  A failing member must not affect
its neighbours; the extent of a member whose successor's offset is unusable could run to the next
usable offset ( or the end of the data ), as it already does for the last member.

Exits 1 ( printing observed vs expected ) while the contradiction is present, 0 otherwise.
"""
from __future__ import print_function
import logging, struct, sys

import cpppo
from cpppo.server.enip import device, logix, parser

logging.basicConfig( level=logging.CRITICAL )
logging.getLogger().setLevel( logging.CRITICAL )

device.lookup_reset()
logix.setup_reset()
tags				= cpppo.dotdict()
tags.A				= cpppo.dotdict( attribute=device.Attribute( 'A', parser.INT,  default=[ 11, 22, 33 ] ), error=0 )
tags.X				= cpppo.dotdict( attribute=device.Attribute( 'X', parser.DINT, default=7 ), error=0 )
tags.R				= cpppo.dotdict( attribute=device.Attribute( 'R', parser.REAL, default=[ 1.5, 2.5 ] ), error=0 )
logix.setup( tags=tags )

def sym( name ):
    b				= name.encode( 'iso-8859-1' )
    return b'\x91' + struct.pack( 'B', len( b )) + b + ( b'\x00' if len( b ) % 2 else b'' )

def cip( service, path, data=b'' ):
    return struct.pack( 'BB', service, len( path ) // 2 ) + path + data

def issue( request ):
    data			= cpppo.dotdict()
    data.request		= cpppo.dotdict( input=bytearray( request ))
    device.lookup( 0x06, 1 ).request( data, addr=('127.0.0.1', 54321) )
    return bytes( bytearray( data.request.input ))

def members( reply ):
    raw				= bytearray( reply )
    assert raw[0] == 0x8A and raw[2] == 0, "Multiple Service Packet failed: %r" % ( reply, )
    body			= bytes( raw[4:] )
    n,				= struct.unpack( '<H', body[:2] )
    offs			= struct.unpack( '<%dH' % n, body[2:2+2*n] )
    return [ body[offs[i]:( offs[i+1] if i + 1 < n else len( body ))] for i in range( n ) ]

reqs				= [ cip( 0x4C, sym( 'A' ), struct.pack( '<H', 2 )),
                                    cip( 0x4C, sym( 'X' ), struct.pack( '<H', 1 )),
                                    cip( 0x4C, sym( 'R' ), struct.pack( '<H', 2 )) ]
alone				= [ issue( r ) for r in reqs ]
good				= [ 8, 8 + len( reqs[0] ), 8 + len( reqs[0] ) + len( reqs[1] ) ]

failed				= False
for bad in ( 0xFFFF, 0 ):
    offsets			= [ good[0], bad, good[2] ]
    packet			= cip( 0x0A, b'\x20\x02\x24\x01',
                                       struct.pack( '<H', 3 ) + b''.join( struct.pack( '<H', o ) for o in offsets ) + b''.join( reqs ))
    got				= members( issue( packet ))
    print( "offsets %r:" % ( offsets, ))
    for i,( a,g ) in enumerate( zip( alone, got )):
        print( "  member %d: alone %r; in packet %r" % ( i, a, g ))
    # Member 1 has no usable offset: whatever error it gets is fine.  Members 0 and 2 are located exactly.
    if got[0] != alone[0] or got[2] != alone[2]:
        print( "  CONTRADICTION: member %s (offset exact) is not answered as it is alone" % (
            ' and '.join( str( i ) for i in ( 0, 2 ) if got[i] != alone[i] )))
        failed			= True
sys.exit( 1 if failed else 0 )
