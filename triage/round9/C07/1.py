#!/usr/bin/env python
"""C07 defect 1: a tag configured to fail with an error code < 0x10 is reported differently when it is
read alone (Read Tag Fragmented, the client's default) than when the same read travels in a
Multiple Service Packet.

The simulator lets a tag be configured with an error code ( Attribute.error; the 'error' of a tags
entry ): every access is answered with that CIP status.  Logix.request drops the extended status
before it raises the forced failure, so the reply to a lone Read Tag Fragmented is D2 00 <sts> 00 --
for a status < 0x10 byte-identical to a failed Unconnected Send ( see parser.unconnected_send and the
repair "an error reply to Read Tag Fragmented (0x52) always carries an extended status word", which
only covered the generic error path ).  The client therefore raises instead of reporting the failed
read, while the same request as a member of a Multiple Service Packet yields the plain status.

Exits 1 ( printing observed vs expected ) while the contradiction is present, 0 otherwise.
"""
from __future__ import print_function
import logging, socket, sys, threading, time

import cpppo
from cpppo.server.enip import client, device
import cpppo.server.enip.main as enip_main

logging.basicConfig( level=logging.CRITICAL )
logging.getLogger().setLevel( logging.CRITICAL )

PORT				= 44871
ERROR				= 0x04

srv				= threading.Thread( target=enip_main.main,
                                                    kwargs=dict( argv=[ '-a', 'localhost:%d' % PORT, 'E=DINT[4]', 'G=DINT[4]' ] ))
srv.daemon			= True
srv.start()
for _ in range( 100 ):
    try:
        socket.create_connection( ('localhost', PORT), timeout=.2 ).close()
        break
    except Exception:
        time.sleep( .1 )

def run( multiple ):
    """--> [ status, ... ] of the reads of E[0], or the Exception that ended them"""
    out				= []
    try:
        with client.connector( host='localhost', port=PORT, timeout=5 ) as conn:
            ops			= client.parse_operations( [ 'G[0]', 'E[0]', 'G[1]' ] )
            for idx,dsc,req,rpy,sts,val in conn.synchronous( ops, multiple=multiple, fragment=True, timeout=5 ):
                out.append( sts )
    except Exception as exc:
        out.append( "%s: %s" % ( type( exc ).__name__, exc ))
    return out

ok_single			= run( 0 )		# make sure the tags exist (created by the first request)
enip_main.tags.E.error		= ERROR			# as the web API does: tags/E/error=4
att				= device.lookup( *device.resolve_tag( 'E' ))

single				= run( 0 )
bundled				= run( 4000 )
print( "Tag E configured with error 0x%02x (Attribute.error == %r)" % ( ERROR, att.error ))
print( "Read Tag Fragmented G[0], E[0], G[1] one by one   : %r" % ( single, ))
print( "The same requests in a Multiple Service Packet : %r" % ( bundled, ))
expected			= [ 0, ERROR, 0 ]
def plain( l ):
    return [ s[0] if isinstance( s, tuple ) else s for s in l ]
if plain( single ) != plain( bundled ) or plain( bundled ) != expected:
    print( "CONTRADICTION: expected statuses %r in both cases" % ( expected, ))
    sys.exit( 1 )
sys.exit( 0 )
