#!/usr/bin/env python
"""Blanks between the tag name and its '[index]' or '*count' stay in the symbol: parse_operations discards
the blanks around the tag ( and around '+offset' and '=values' ), but 'Tag [1]' and 'Tag *3' name the
symbol 'Tag ' ( with the blank ), a tag that does not exist; 'Tag[1] ', 'Tag + 4' and 'Tag = 1' are fine.
"""
import sys
from cpppo.server.enip import client

bad = []
for text,exp in (
        ( 'Tag [1]',      [{'symbolic': 'Tag'}, {'element': 1}] ),
        ( 'Tag *3',       [{'symbolic': 'Tag'}] ),
        ( 'Tag [1-2] = 3, 4', [{'symbolic': 'Tag'}, {'element': 1}] ),
        ( ' Tag[1] ',     [{'symbolic': 'Tag'}, {'element': 1}] ),	# reference: handled
        ( 'Tag[1] + 4',   [{'symbolic': 'Tag'}, {'element': 1}] ),	# reference: handled
):
    try:
        op, = client.parse_operations( [ text ] )
        got = op['path']
    except Exception as exc:
        got = "%s: %s" % ( type( exc ).__name__, exc )
    if got != exp:
        bad.append( "%-22r observed path %r, expected %r" % ( text, got, exp ))
if bad:
    print( "\n".join( bad ))
    sys.exit( 1 )
print( "OK" )
