"""C09 / UNCHANGED code: UCMM Register Session is meant to hand every session its own handle ( `while not session or
session in self.__class__.sessions` ), but the sessions table is keyed by the PEER ADDRESS, so the test never sees the
handles in use: when the random generator repeats a number, two simultaneous sessions are given the same handle.
Made deterministic by letting random.randint repeat itself once.  Expected: two live sessions never share a handle."""
import sys, random
from cpppo.dotdict import dotdict
from cpppo.server.enip import device, logix, ucmm as ucmm_module

device.lookup_reset(); logix.setup_reset()
u				= logix.setup()
ucmm_module.UCMM.sessions.clear()

draws				= iter( [ 0x11223344, 0x11223344, 0x55667788, 0x99AABBCC ] )
real				= random.randint
random.randint			= lambda a, b: next( draws )
try:
    handles			= []
    for addr in ( ('127.0.0.1', 50001), ('127.0.0.1', 50002) ):
        data			= dotdict()
        data.enip		= {'command': 0x0065, 'session_handle': 0, 'status': 0, 'options': 0,
                                   'sender_context': {'input': bytearray( 8 )}}
        data.enip.CIP		= {'register': {'protocol_version': 1, 'options': 0}}
        u.request( data, addr=addr )
        handles.append( data.enip.session_handle )
finally:
    random.randint		= real
if len( set( handles )) != len( handles ):
    print( "CONTRADICTION: two simultaneous sessions were registered with handles %r; expected distinct handles "
           "( sessions table: %r )" % ( [ hex( h ) for h in handles ], ucmm_module.UCMM.sessions ))
    sys.exit( 1 )
print( "OK: handles %r" % ( [ hex( h ) for h in handles ], ))
