"""typed_data of a STRUCT whose limit ends right behind the structure_tag ( a structure handle and no data,
"eg. if you do a Read Tag Fragmented with an offset to exactly the end of the structure" as the comment in
typed_data says, with an initializer meant for exactly that ) fails: the move_if that should supply the
empty .data finds the ( emptied ) '.STRUCT' level already present, skips its initializer and then cannot
pop '.STRUCT.data'.

Input: typed_data( tag_type=STRUCT, limit=2 ) over 34 12 ...   Observed: AssertionError "Could not find
'typed_data.STRUCT.data' to move ...".   Expected: completes with .structure_tag == 0x1234 and an empty
.data.input, consuming 2 octets.
"""
import sys, logging
import cpppo
from cpppo.server.enip import parser
logging.disable( logging.CRITICAL )

source				= cpppo.chainable( b'\x34\x12\xEE\xDD' )
data				= cpppo.dotdict()
try:
    with parser.typed_data( tag_type=parser.STRUCT.tag_type, terminal=True, limit=2 ) as m:
        for mch,sta in m.run( source=source, data=data ):
            if sta is None and source.peek() is None:
                break
        term			= m.terminal
except Exception as exc:
    print( "CONTRADICTION: STRUCT with a structure_tag and no data octets failed: %r (expected: structure_tag 0x1234, empty data, 2 octets consumed)" % ( exc, ))
    sys.exit( 1 )
ok				= term and source.sent == 2 and data.get( 'typed_data.structure_tag' ) == 0x1234
print( "OK" if ok else "CONTRADICTION: terminal=%r sent=%r data=%r" % ( term, source.sent, dict( data )))
sys.exit( 0 if ok else 1 )
