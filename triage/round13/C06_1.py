"""C06 defect 1: a complete, well-formed EtherNet/IP frame whose command the simulator does not support (0x0099; empty
payload) on a registered session is not answered at all: the server thread fails in logix.process (the CIP parser ends
in a non-terminal state) and the connection is dropped.  Expected: ONE reply frame with the request's command, session
handle and sender context and a non-zero encapsulation status (0x0001, invalid or unsupported command).
"""
import os, sys, threading, time, socket, struct

from cpppo.server.enip import main as enip_main

PORT = 44818

def start():
    t = threading.Thread( target=enip_main.main,
                          kwargs=dict( argv=[ '-a', 'localhost:%d' % PORT, 'TAG=DINT[10]' ] ))
    t.daemon = True
    t.start()
    for _ in range( 150 ):
        try:
            socket.create_connection( ('127.0.0.1', PORT), timeout=.5 ).close()
            return
        except Exception:
            time.sleep( .1 )
    raise RuntimeError( "simulator did not start" )

def frame( command, session, ctx, payload ):
    return struct.pack( '<HHII8sI', command, len( payload ), session, 0, ctx, 0 ) + payload

def recv_exact( s, n ):
    buf = b''
    while len( buf ) < n:
        d = s.recv( n - len( buf ))
        if not d:
            return None
        buf += d
    return buf

def recv_frame( s, timeout=5 ):
    s.settimeout( timeout )
    try:
        hdr = recv_exact( s, 24 )
        if hdr is None:
            return None
        cmd,ln,sess,sta,ctx,opt = struct.unpack( '<HHII8sI', hdr )
        pay = recv_exact( s, ln ) if ln else b''
        return cmd,sess,sta,ctx,pay
    except socket.timeout:
        return None

def rrdata( cipreq ):
    return ( struct.pack( '<IHH', 0, 5, 2 ) + struct.pack( '<HH', 0, 0 )
             + struct.pack( '<HH', 0xb2, len( cipreq )) + cipreq )


def main():
    start()
    s = socket.create_connection( ('127.0.0.1', PORT) )
    s.sendall( frame( 0x65, 0, b'REGISTER', struct.pack( '<HH', 1, 0 )))
    sess = recv_frame( s )[1]
    assert sess, "no session"
    s.sendall( frame( 0x0099, sess, b'UNKNCMD_', b'' ))
    rpy = recv_frame( s, timeout=3 )
    print( "observed: %r" % ( rpy, ))
    print( "expected: one frame ( 0x99, %d, <non-zero status>, b'UNKNCMD_', b'' )" % sess )
    ok = rpy is not None and rpy[1] == sess and rpy[2] != 0 and rpy[3] == b'UNKNCMD_'
    sys.stdout.flush()
    os._exit( 0 if ok else 1 )

main()
