"""C07 defect 2 (client side): state_multiple_service's closure is shared by the request and the reply
parser.  A member REPLY the client's parser cannot parse (here: a Read Tag reply cut short behind its
type) is replaced by the stand-in made for unparsable REQUESTS: { path.segment: [], service: first
octet & 0x7F } -- the reply bit is masked off and there is no .status.  client.connector.collect then
evaluates reply.status for every member and raises, so the valid neighbours in the same bundle reply
are lost too ( harvest's rpy.service == req.service | 0x80 could not hold either )."""
import logging, sys
logging.basicConfig( level=logging.CRITICAL )
import cpppo
from cpppo.server import enip
from cpppo.server.enip import logix, device

enip.lookup_reset()			# a client process: no Message Router Object, the dialect parses
device.dialect = logix.Logix
good = b'\xcc\x00\x00\x00\xc4\x00\x2a\x00\x00\x00'
rpy = b'\x8a\x00\x00\x00\x02\x00\x06\x00\x0b\x00' + b'\xcc\x00\x00\x00\xc4' + good
data = cpppo.dotdict()
with logix.Logix.parser as machine:
    for m,s in machine.run( source=cpppo.peekable( rpy ), data=data ):
        pass
members = data.multiple.request
bad = []
if len( members ) != 2:
    bad.append( "observed %d members, expected 2" % len( members ))
else:
    if members[1].get( 'read_tag.data' ) != [42] or members[1].get( 'status' ) != 0:
        bad.append( "valid neighbour not parsed: %r" % ( members[1], ))
    m0 = members[0]
    if not ( m0.get( 'service', 0 ) & 0x80 ) or m0.get( 'status' ) in ( None, 0 ):
        bad.append( "unparsable member reply: observed service %r status %r path %r; expected a reply (service 0xCC, "
                    "bit 0x80 kept) carrying an error status, so collect/harvest can report it and go on" % (
                        m0.get( 'service' ), m0.get( 'status' ), m0.get( 'path' )))
if bad:
    print( "\n".join( bad ))
    sys.exit( 1 )
print( "OK" )
