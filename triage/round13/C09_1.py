"""C09 / UNCHANGED code: device.resolve() walks the live symbol table ( `any( ... for s in symbol )`, taken when a path
spells a dotted name "A"."B" whose first part is itself a Tag ) while another thread adds Tags at run time
( device.redirect_tag, as logix.setup_tag does ): the walk dies with "dictionary changed size during iteration", and a
read of a Tag that exists all the time is answered 0x05 "path destination unknown".
Expected: every read of A.B is answered status 0 with its data, whatever Tags are added meanwhile."""
import sys, threading, time
sys.setswitchinterval( 1e-6 )

from cpppo.dotdict import dotdict
from cpppo.server.enip import device, logix
from cpppo.server.enip.parser import DINT

device.lookup_reset()
mr				= logix.Logix( instance_id=1 )
mr.attribute['1']		= device.Attribute( 'A',   DINT, default=[111] * 4 )
mr.attribute['2']		= device.Attribute( 'A.B', DINT, default=[222] * 4 )
device.redirect_tag( 'A',   {'class': mr.class_id, 'instance': 1, 'attribute': 1} )
device.redirect_tag( 'A.B', {'class': mr.class_id, 'instance': 1, 'attribute': 2} )
for i in range( 2000 ):
    device.redirect_tag( 'Tag_%04d' % i, {'class': mr.class_id, 'instance': 1, 'attribute': 1} )

failures			= []
done				= threading.Event()
def adder( deadline ):
    k				= 0
    while time.time() < deadline and not done.is_set():
        k		       += 1
        device.redirect_tag( 'New_%06d' % k, {'class': mr.class_id, 'instance': 1, 'attribute': 1} )
        time.sleep( 0.0002 )

def session( name, deadline ):
    k				= 0
    while time.time() < deadline and not done.is_set():
        k		       += 1
        req			= dotdict()
        req.service		= logix.Logix.RD_FRG_REQ
        req.path		= {'segment': [ {'symbolic': 'A'}, {'symbolic': 'B'}, {'element': 0} ]}
        req.read_frag		= {'elements': 4, 'offset': 0}
        try:
            mr.request( req )
            got			= list( req.read_frag.data ) if req.status == 0 else None
        except Exception as exc:
            got			= exc
        if got != [222] * 4:
            failures.append( "%s: read #%d of Tag A.B: observed status 0x%02x, %r; expected status 0x00, %r" % (
                name, k, req.get( 'status', -1 ), got, [222] * 4 ))
            done.set()

deadline			= time.time() + 15
threads				= [ threading.Thread( target=session, args=( "session %d" % i, deadline )) for i in range( 2 ) ]
threads.append( threading.Thread( target=adder, args=( deadline, )))
for t in threads: t.start()
for t in threads: t.join()
if failures:
    print( "CONTRADICTION:\n" + "\n".join( failures ))
    sys.exit( 1 )
print( "OK" )
