"""A dfa with repeat=N reports .terminal (and so "frame complete") while its N'th cycle has not consumed
its symbol yet: dfa_base.delegate counts the cycle when it STARTS, and dfa_base.terminal only asks
"no cycles remain and the current sub-state is terminal" -- for octets / octets_drop / TYPE parsers
the single sub-state is terminal before it has processed anything.

Observed: octets( repeat=4 ) given 3 octets ( then no more input ) says .terminal == True, with 3 in
.input; enip_machine with header .length == 4 and 3 payload octets says .terminal == True.
Expected: not terminal until all 4 cycles have run ( "a repeat count makes the sub-grammar run
exactly that many times"; "terminal only after the last cycle" ).
"""
import sys, logging
import cpppo
from cpppo.server.enip import parser
logging.disable( logging.CRITICAL )

def parse( machine, octets ):
    source			= cpppo.chainable( octets )
    data			= cpppo.dotdict()
    with machine as m:
        for mch,sta in m.run( source=source, data=data ):
            if sta is None and source.peek() is None:
                break					# awaiting input that does not arrive
        return m.terminal, source.sent, data

bad				= []
for n in range( 0, 4 ):
    term,sent,data		= parse( parser.octets( 'raw', context='raw', repeat=4, terminal=True ), b'abcd'[:n] )
    if term:
        bad.append( "octets( repeat=4 ) after %d octets: terminal=%r (expected False), .input=%r" % (
            n, term, data.get( 'raw.input' )))
header				= b'\x6f\x00\x04\x00' + b'\x01\x00\x00\x00' + b'\x00'*4 + b'ctxtctxt' + b'\x00'*4
for n in range( 0, 4 ):
    term,sent,data		= parse( parser.enip_machine( terminal=True ), header + b'abcd'[:n] )
    if term:
        bad.append( "enip_machine, .length == 4, %d payload octets: terminal=%r (expected False), .input=%r" % (
            n, term, data.get( 'enip.input' )))
term,sent,data			= parse( parser.UDINT( terminal=True ), b'\x01\x02\x03' )
if term:
    bad.append( "UDINT after 3 of 4 octets: terminal=%r (expected False)" % ( term, ))
if bad:
    print( "CONTRADICTION:\n  " + "\n  ".join( bad ))
    sys.exit( 1 )
print( "OK" )
