"""Reading a short-string array: SSTRING[10] / STRING[10] holding one-letter strings ( 20 / 40 octets on the wire ) cannot be read:
the reply is cut to 7 elements by the 80-octet *estimate* of an element and marked 0x06 ( partial ), and the continuation the
client must then send ( Read Tag Fragmented at the byte offset received ) is refused with 0xFF - so no client ( pylogix included )
can ever obtain the array although it fits a single reply many times over."""
import struct, sys
import cpppo
from cpppo.server import enip
from cpppo.server.enip import logix

def ioi( tag ):
    t = tag.encode( 'ascii' )
    seg = b'\x91' + struct.pack( 'B', len( t )) + t + ( b'\x00' if len( t ) % 2 else b'' )
    return struct.pack( 'B', len( seg ) // 2 ) + seg

def transact( Obj, req ):
    data = cpppo.dotdict()
    with Obj.parser as machine:
        for m,s in machine.run( source=cpppo.rememberable( req ), data=data ):
            pass
    Obj.request( data )
    return bytes( bytearray( data.input ))

enip.lookup_reset()
Obj = logix.Logix( instance_id=1 )
model = [ chr( ord( 'a' ) + i ) for i in range( 10 ) ]
Obj.attribute['1'] = enip.device.Attribute( 'SS', enip.parser.SSTRING, default=list( model ))
enip.device.redirect_tag( 'SS', { 'class': Obj.class_id, 'instance': Obj.instance_id, 'attribute': 1 })

bad = []
rpy = transact( Obj, b'\x52' + ioi( 'SS' ) + struct.pack( '<HI', 10, 0 ))
sts = rpy[2]
body = rpy[4:]
vals = []
if sts in ( 0, 6 ) and body[:2] == b'\xda\x00':
    b = body[2:]
    while b:
        n = b[0]; vals.append( b[1:1+n].decode( 'latin-1' )); b = b[1+n:]
print( "Read Tag Fragmented SS x10 offset 0: status 0x%02x, %d octets of data, values %r" % ( sts, len( body ) - 2, vals ))
if sts != 0 or vals != model:
    bad.append( "observed status 0x%02x with %d of 10 elements ( %d octets ); expected status 0x00 and all 10 one-letter strings" % (
        sts, len( vals ), len( body ) - 2 ))
if sts == 6:
    rpy = transact( Obj, b'\x52' + ioi( 'SS' ) + struct.pack( '<HI', 10, len( body ) - 2 ))
    print( "continuation at offset %d: status 0x%02x ext size %d" % ( len( body ) - 2, rpy[2], rpy[3] ))
    if rpy[2] not in ( 0, 6 ):
        bad.append( "the continuation the 0x06 asks for is refused with status 0x%02x: the rest of the array is unobtainable" % rpy[2] )
if bad:
    print( "CONTRADICTION:\n  " + "\n  ".join( bad ))
    sys.exit( 1 )
print( "OK" )
