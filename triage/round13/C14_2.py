"""Documented error statuses ( table in Logix.request ): Write Tag Fragmented whose *offset* lies beyond the end of the requested
range answers 0xFF with extended status 0x2104 ( "Offset is beyond end of the requested tag (fragmented only)" ); 0x2105 is for a
number of elements that extends beyond the tag.  Observed: 0x2105 for both."""
import struct, sys
import cpppo
from cpppo.server import enip
from cpppo.server.enip import logix

def ioi( tag ):
    t = tag.encode( 'ascii' )
    seg = b'\x91' + struct.pack( 'B', len( t )) + t + ( b'\x00' if len( t ) % 2 else b'' )
    return struct.pack( 'B', len( seg ) // 2 ) + seg

def transact( Obj, req ):
    data = cpppo.dotdict()
    with Obj.parser as machine:
        for m,s in machine.run( source=cpppo.rememberable( req ), data=data ):
            pass
    Obj.request( data )
    return bytes( bytearray( data.input ))

enip.lookup_reset()
Obj = logix.Logix( instance_id=1 )
Obj.attribute['1'] = enip.device.Attribute( 'D', enip.parser.DINT, default=list( range( 100 )))
enip.device.redirect_tag( 'D', { 'class': Obj.class_id, 'instance': Obj.instance_id, 'attribute': 1 })

# 100 elements ( all of the tag, legal ), offset 400 octets == just beyond the last element, one DINT of data
rpy = transact( Obj, b'\x53' + ioi( 'D' ) + struct.pack( '<HHI', 0x00c4, 100, 400 ) + struct.pack( '<i', 1 ))
sts,n = rpy[2], rpy[3]
exts = list( struct.unpack_from( '<%dH' % n, rpy, 4 ))
print( "Write Tag Fragmented D x100 at offset 400: status 0x%02x ext %r" % ( sts, [ hex( e ) for e in exts ] ))
if not ( sts == 0xFF and exts == [0x2104] ):
    print( "CONTRADICTION: observed status 0x%02x ext %r; the documented status for an offset beyond the end of the tag is 0xFF [0x2104]" % (
        sts, [ hex( e ) for e in exts ] ))
    sys.exit( 1 )
print( "OK" )
