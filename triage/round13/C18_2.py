import os, sys, shutil, tempfile, gzip
from cpppo.history import files as hf
from cpppo.history.files import logger, loader

class Clock( object ):
    def __init__( self, t ): self.t = t
    def __call__( self ): return self.t

T = 1500000000.0

def replay( files, historical, lookahead=None, factor=1.0, steps=80, dt=0.25, gz=() ):
    d = tempfile.mkdtemp()
    try:
        clock = hf.timer = Clock( T + 1000 )
        p = os.path.join( d, 'h.hst' )
        for ext,recs in files:
            with logger( p + ext ) as l:
                for t,v in recs:
                    l.write( v, now=t )
        for ext,to in gz:
            with open( p + ext, 'rb' ) as rd:
                with gzip.GzipFile( p + to, 'wb' ) as wr:
                    wr.write( rd.read() )
        ld = loader( p, historical=historical, basis=T+1000, factor=factor, lookahead=lookahead )
        got = []
        for i in range( steps ):
            clock.t = T + 1000 + i * dt
            cur,events = ld.load()
            got.extend( (round( e['timestamp'].value - T, 3 ), e['values']) for e in events )
            if not ld:
                break
        return ld, got, dict( (r,v) for r,(t,v) in ld.values.items() )
    finally:
        shutil.rmtree( d )

def check( got, files ):
    expected = sorted(( (round( t - T, 3 ), v) for ext,recs in files for t,v in recs ), key=lambda r: r[0] )
    if got != expected:
        print( "observed: %r" % ( got, ))
        print( "expected: %r" % ( expected, ))
        sys.exit( 1 )
    print( "OK" )

# A rotated file holding only records of one instant, followed by a file that begins at the same instant
files = [ ('.2', [ (T+1, {'1': 1}), (T+2, {'1': 2}) ]),
          ('.1', [ (T+3, {'1': 3}), (T+3, {'2': 30}) ]),
          ('',   [ (T+3, {'3': 300}), (T+4, {'1': 4}) ]) ]
ld,got,final = replay( files, historical=T )
check( got, files )
