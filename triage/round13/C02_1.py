"""Over UDP an empty datagram is taken for the end of the session.

A datagram of zero octets is a response cut at offset 0: it must have no effect.  client.__next__
treats the empty read as a TCP style EOF and raises StopIteration, so await_response reports {}
( "session ended" ) although the socket is connectionless and the complete response follows.
"""
import socket, struct, sys, threading, time
from cpppo.server.enip import client

def frame( cmd, payload, ctx ):
    return struct.pack( '<HHII8sI', cmd, len( payload ), 0, 0, ctx, 0 ) + payload
full		= frame( 0x0004, b'\x00\x00', b'abcdefgh' )
srv		= socket.socket( socket.AF_INET, socket.SOCK_DGRAM )
srv.bind( ('127.0.0.1', 0) )
port		= srv.getsockname()[1]
def serve():
    req,frm	= srv.recvfrom( 4096 )
    srv.sendto( b'', frm )
    time.sleep( .3 )
    srv.sendto( full, frm )
threading.Thread( target=serve, daemon=True ).start()

cli		= client.client( '127.0.0.1', port, udp=True, broadcast=True )
with cli:
    cli.list_services( timeout=1.0 )
    try:
        rsp,ela	= client.await_response( cli, timeout=2.0 )
    except Exception as exc:
        rsp	= "raised %r" % ( exc, )
print( "first await_response( timeout=2.0 ) after %r" % ( rsp, ))
if rsp == {} and rsp is not None:
    print( "observed: {} ( EOF, session ended ) for an empty datagram on a connectionless socket;\n"
           "expected: the empty datagram has no effect ( or is reported as a failed response ), and the complete\n"
           "          response that follows 0.3s later is delivered" )
    sys.exit( 1 )
sys.exit( 0 )
