"""A JSON route path whose port or link is not an integer (a fraction, a boolean) or a text whose number is not a
plain decimal ( "1_0" ) spells no port/link segment; parse_route_path / port_link silently turn them into other segments,
so a simulator configured with such a text accepts requests for a route path nobody wrote."""
import sys
from cpppo.server.enip import device

bad = []
for text in ( '[{"port": 1, "link": 1.9}]', '[{"port": 2.5, "link": 0}]', '[{"port": true, "link": 0}]',
              '[{"port": 1, "link": false}]', '1_0/2', '1/1_1' ):
    try:
        got = device.parse_route_path( text )
    except Exception as exc:
        print( "%-32s refused: %s" % ( text, exc ))
        continue
    print( "%-32s ==> %r" % ( text, got ))
    bad.append( "%s ==> %r" % ( text, got ))
if bad:
    print( "OBSERVED: accepted as if they spelled integer port/link segments: %s" % ( "; ".join( bad )))
    print( "EXPECTED: refused (as the text '1/1.9' is): they denote no port/link segment" )
    sys.exit( 1 )
print( "OK" )
