#!/usr/bin/env python
"""A JSON path term whose text contains a '.' ( an IP link address, a dotted symbol ) cannot be parsed:
parse_path_elements splits the whole text at '.' before it recognises the {...} term, although the
docstring of parse_path allows "any segment type at all by providing it in JSON form", and
format_path emits exactly such a term for every segment it has no short form for -- so a formatted
path does not parse back to the same segments.
"""
import sys
from cpppo.server.enip import client

bad = []
for segs in (
        [{'class': 1}, {'instance': 2}, {'port': 1, 'link': '10.0.0.1'}],
        [{'class': 0x6B}, {'instance': 8}, {'port': 2, 'link': '192.168.0.7'}, {'element': 3}],
):
    text = client.format_path( segs )
    try:
        back = client.parse_path( text )
    except Exception as exc:
        back = "%s: %s" % ( type( exc ).__name__, exc )
    if back != segs:
        bad.append( "format_path( %r ) == %r\n    parses back to: %s\n    expected:       %r" % ( segs, text, back, segs ))
for text,exp in (
        ( '@0x04/5/{"port":1,"link":"10.0.0.1"}', [{'class': 4}, {'instance': 5}, {'port': 1, 'link': '10.0.0.1'}] ),
):
    try:
        op, = client.parse_operations( [ text ] )
        got = op['path']
    except Exception as exc:
        got = "%s: %s" % ( type( exc ).__name__, exc )
    if got != exp:
        bad.append( "parse_operations( [%r] )\n    observed: %s\n    expected path: %r" % ( text, got, exp ))
if bad:
    print( "\n".join( bad ))
    sys.exit( 1 )
print( "OK" )
