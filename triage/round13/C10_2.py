"""A CPF item's .length is only a ceiling for the item's parser; when the parser of a recognized item
type completes short of it, the CPF grammar carries on INSIDE the item: the remaining octets of the
item are taken for the type_id / length of the next item.

Input: count=2; item[0] type 0x00A1 ( connection_ID, takes 4 octets ) announcing .length=8, its last
4 octets being B1 00 00 00; then the real second item B1 00 04 00 01 00 0E 03.
Observed: the CPF parser completes ( terminal ) after 14 octets, item[1] == { type_id 0xB1, length 0 },
which are octets 4..8 of item[0]; the real second item is left unconsumed in the source.
Expected: item[1] is the item that follows item[0]'s 8 octets ( or the parse fails ): a parsed length
field delimits the item for the enclosing grammar; the unrecognized-type branch ( fix 5dcf0ae ) does
take exactly .length octets, the recognized ones do not.
"""
import sys, logging
import cpppo
from cpppo.server.enip import parser
logging.disable( logging.CRITICAL )

item0				= b'\xa1\x00' + b'\x08\x00' + b'\x11\x22\x33\x44' + b'\xb1\x00\x00\x00'
item1				= b'\xb1\x00\x04\x00\x01\x00\x0e\x03'
octets				= b'\x02\x00' + item0 + item1
source				= cpppo.chainable( octets )
data				= cpppo.dotdict()
failed				= None
try:
    with parser.CPF( terminal=True ) as m:
        for mch,sta in m.run( source=source, data=data ):
            if sta is None and source.peek() is None:
                break
        term			= m.terminal
except Exception as exc:
    failed			= exc
if failed is not None:
    print( "OK: refused (%r)" % ( failed, ))
    sys.exit( 0 )
second				= data.get( 'CPF.item[1]' )
if term and ( source.sent != len( octets ) or second.get( 'length' ) != 4 ):
    print( "CONTRADICTION: CPF completed after %d of %d octets; item[1] == %r was read from inside item[0] (expected type_id 0xB1 == 177, length 4 from the octets behind item[0])" % (
        source.sent, len( octets ), dict( second )))
    sys.exit( 1 )
print( "OK" )
