"""C07 defect 1: a Multiple Service Packet whose members are all empty (its offsets all point at the end
of the packet, so there are no request data octets at all) is refused as a whole with status 0x08,
although the same empty member behind a non-empty one is kept in place and answered alone
( 80 00 08 00 ) inside a successful bundle reply.  The 'requests' octets state of the request parser
needs at least one octet to reach state_multiple_service, so .multiple.request is never created and
Message_Router.request fails on data.multiple.request."""
import logging, struct, sys
import cpppo
from cpppo.server import enip
from cpppo.server.enip import logix, device, parser

logging.basicConfig( level=logging.CRITICAL )

def setup():
    enip.lookup_reset()
    Obj = logix.Logix( instance_id=1 )
    Obj.attribute['1'] = device.Attribute( 'parts', parser.DINT, default=[n for n in range( 20 )] )
    device.redirect_tag( 'parts', {'class': Obj.class_id, 'instance': Obj.instance_id, 'attribute': 1 })
    Obj.CM = device.Connection_Manager( instance_id=1 )
    return Obj

def run( req ):
    Obj = setup()
    data = cpppo.dotdict()
    data.request = cpppo.dotdict( input=bytearray( req ))
    Obj.CM.request( data, addr=('127.0.0.1',12345) )
    return bytes( data.request.input )

def bundle( reqs ):
    n = len( reqs )
    o = 2 + 2*n
    offs = []
    for r in reqs:
        offs.append( o ); o += len( r )
    return ( b'\x0a\x02\x20\x02\x24\x01' + struct.pack( '<H', n ) + b''.join( struct.pack( '<H', x ) for x in offs )
             + b''.join( reqs ))

rd = b'\x4c\x04\x91\x05parts\x00\x01\x00'

# Reference: the empty member behind a read is answered alone, in place
ref = run( bundle( [ rd, b'' ] ))
assert ref == b'\x8a\x00\x00\x00\x02\x00\x06\x00\x10\x00' + b'\xcc\x00\x00\x00\xc4\x00\x00\x00\x00\x00' + b'\x80\x00\x08\x00', \
    "unexpected reference reply %r" % ( ref, )

bad = []
for label,reqs,expect in (
        ( "one empty member",  [ b'' ],      b'\x8a\x00\x00\x00\x01\x00\x04\x00' + b'\x80\x00\x08\x00' ),
        ( "two empty members", [ b'', b'' ], b'\x8a\x00\x00\x00\x02\x00\x06\x00\x0a\x00' + b'\x80\x00\x08\x00' * 2 ),
):
    got = run( bundle( reqs ))
    if got != expect:
        bad.append( "%s: observed %r, expected %r (each member answered alone, as behind a non-empty member)" % (
            label, got, expect ))
if bad:
    print( "\n".join( bad ))
    sys.exit( 1 )
print( "OK" )
