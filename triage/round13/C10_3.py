"""SSTRING accepts a text that ends before its .length octets were seen ( the sibling of fix 6db9b7e, which
made STRING refuse that ): the .length is only the limit of the text, and when an enclosing limit cuts the
text short the SSTRING completes with the fragment.

Input: typed_data( SSTRING ) with limit=3 over 05 61 62 ... ( .length == 5, two octets of text within
the limit ).   Observed: completes, .data == ['ab'].   Expected: not complete / refused, like
typed_data( STRING ) with limit=4 over 05 00 61 62 is.
"""
import sys, logging
import cpppo
from cpppo.server.enip import parser
logging.disable( logging.CRITICAL )

def parse( machine, octets ):
    source			= cpppo.chainable( octets )
    data			= cpppo.dotdict()
    try:
        with machine as m:
            for mch,sta in m.run( source=source, data=data ):
                if sta is None and source.peek() is None:
                    break
            return m.terminal, data
    except Exception as exc:
        return False, data

term_s,data_s			= parse( parser.typed_data( tag_type=parser.SSTRING.tag_type, terminal=True, limit=3 ), b'\x05abcde' )
term_l,data_l			= parse( parser.typed_data( tag_type=parser.STRING.tag_type, terminal=True, limit=4 ), b'\x05\x00abcde\x00' )
assert not term_l, "STRING is expected to refuse a text cut short"
if term_s:
    print( "CONTRADICTION: SSTRING .length == 5 cut after 2 octets of text completed with %r (expected: refused, as STRING is)" % (
        data_s.get( 'typed_data.data' ), ))
    sys.exit( 1 )
print( "OK" )
