"""Defect AL (C01): Connection_decode keeps the size class of the grammar it belongs to ( large=True for the 0x5B Large Forward Open ) in
self.lrg but never uses it: defaults.Connection( **data ) GUESSES the class from the value ( NCP > 0xFFFF ).  A Large Forward Open whose 32-bit
NCP has all upper bits clear ( Null connection type, fixed size, low priority ) is decoded with the 16-bit field layout: size 17396 becomes
size 500 / type 2 / variable 1, and producing the parsed request again raises.   exit 1 before the fix, 0 after."""
import sys
import cpppo
from cpppo.server.enip import device, parser, defaults
CM = device.Connection_Manager
def request( ncp_ot, ncp_to ):
    d = cpppo.dotdict(); d.service = CM.FWD_OPLG_REQ
    d.path = { 'segment': [ cpppo.dotdict( x ) for x in [ {'class': 6}, {'instance': 1} ]] }
    fo = d.forward_open = cpppo.dotdict()
    fo.priority_time_tick = 5; fo.timeout_ticks = 157; fo.connection_serial = 1; fo.O_vendor = 2; fo.O_serial = 3
    fo.connection_timeout_multiplier = 0; fo.transport_class_triggers = 0xa3
    fo.connection_path = { 'segment': [ cpppo.dotdict( x ) for x in [ {'class': 2}, {'instance': 1} ]] }
    fo.O_T = dict( RPI=1000, connection_ID=1, NCP=ncp_ot, large=True ); fo.T_O = dict( RPI=1000, connection_ID=2, NCP=ncp_to, large=True )
    return d
bad = 0
for ncp_ot, ncp_to in (( 0x420001F4, 0x42000FA0 ), ( 0x000043F4, 0x42000FA0 ), ( 0x000001F4, 0x000001F4 )):
    wire = CM.produce( request( ncp_ot, ncp_to ))
    back = cpppo.dotdict()
    with CM.parser as machine:
        for m, s in machine.run( source=cpppo.peekable( wire ), data=back ):
            pass
    got = ( back.forward_open.O_T.NCP, back.forward_open.O_T.size, back.forward_open.O_T.large )
    want = ( ncp_ot, ncp_ot & 0xFFFF, True )
    try:
        again = CM.produce( back ); same = bytes( again ) == bytes( wire )
    except Exception as exc:
        same = 'produce raises %s' % type( exc ).__name__
    ok = got == want and same is True
    print( 'O_T NCP 0x%08x: parsed ( NCP 0x%08x, size %d, large %s ), produced again identical: %s  %s' % (( ncp_ot, ) + got + ( same, 'OK' if ok else 'WRONG' )))
    bad += not ok
sys.exit( 1 if bad else 0 )
