#!/usr/bin/env python
"""
C01 contradiction 1 ( unchanged code ): a generic CIP service reply that carries data is parsed, but
the parsed message cannot be produced again.

Input:    the reply  a2 00 00 00 01 02  ( service 0x22|0x80, reserved, status 0, no extended status,
          two octets of reply data ) parsed with Object.parser / Logix.parser.
Observed: parsing yields { service: 0xA2, status: 0, service_code.data: [1, 2] }; Object.produce of
          that raises AttributeError( 'path' ): the branch for a generic service *request*
          ( "service_code in data and data.service" ) is tested before the one for a generic *reply*
          ( "service & 0x80" ), so a reply with a payload is taken for a request, which needs a path.
Expected: producing the parsed message regenerates  a2 00 00 00 01 02 .
"""
from __future__ import print_function
import sys
import cpppo
from cpppo.server.enip import device, logix

def parse( cls, octets ):
    data			= cpppo.dotdict()
    with cls.parser as machine:
        for m,s in machine.run( source=cpppo.peekable( octets ), data=data ):
            pass
        assert machine.terminal
    return data

bad				= 0
for cls in ( device.Object, device.Message_Router, logix.Logix ):
    for original in ( b'\xa2\x00\x00\x00\x01\x02', b'\xcb\x00\x00\x00\xff' ):
        data			= parse( cls, original )
        try:
            again		= bytes( cls.produce( data ))
        except Exception as exc:
            again		= exc
        if again != original:
            bad	       += 1
            print( "%s: parsed %r into %r; producing it again gave %r, expected %r" % (
                cls.__name__, original, dict( data ), again, original ))
if bad:
    sys.exit( 1 )
print( "OK" )
