"""Defect Y (C20): tnet_from consults `ignore` only ahead of engine.run; a separator that arrives in a LATER chunk than the end of the previous
message (b'1:a,' | b'\\n1:b,') reaches the SIZE parser and the stream fails with NonTerminal - the result depends on the chunking.
exit 1 on the pinned tree, 0 after the fix."""
import sys, itertools
import cpppo
from cpppo.server import tnet, network

class Conn( object ):
    def __init__( self, chunks ): self.chunks = list( chunks )
orig = network.recv
def fake_recv( conn, maxlen=1024, timeout=None ):
    return conn.chunks.pop( 0 ) if conn.chunks else b''
network.recv = fake_recv

stream = b'1:a,\n1:b,\n3:c\nd,\n\n2:ef,'
want = [ b'a', b'b', b'c\nd', b'ef' ]
bad = 0; n = 0
# every 2-cut chunking of the stream
for i, j in itertools.combinations( range( 1, len( stream )), 2 ):
    chunks = [ stream[:i], stream[i:j], stream[j:] ]
    n += 1
    try:
        got = [ m.encode() if not isinstance( m, bytes ) else m for m in tnet.tnet_from( Conn( chunks ), ( 'x', 1 ), ignore=b'\n', timeout=0.1 ) if m is not None ]
    except Exception as exc:
        got = 'EXC %s' % type( exc ).__name__
    if got != want:
        bad += 1
        if bad <= 5:
            print( 'chunks %r -> %r (expected %r)' % ( chunks, got, want ))
print( '%d of %d chunkings deviate' % ( bad, n ))
sys.exit( 1 if bad else 0 )
