"""C05 defect 2 ( unchanged code, weak ): Get / Set Attribute Single naming an Attribute that does not exist in
an existing Object is answered 0x08 "Service not supported" ( the service IS supported; Read/Write Tag on the
same path answer 0x05 ).  Expected: 0x05 ( path destination unknown; or CIP's 0x14 Attribute not supported )."""
import sys
import cpppo
from cpppo.server import enip
from cpppo.server.enip import logix, parser, device

enip.lookup_reset()
Obj = logix.Logix( instance_id=1 )
Obj.attribute['1'] = device.Attribute( 'I', parser.INT, default=[1, 2, 3] )

def run( req ):
    enc = Obj.produce( cpppo.dotdict( req ))
    data = cpppo.dotdict()
    with Obj.parser as machine:
        for m,s in machine.run( source=cpppo.peekable( enc ), data=data ):
            pass
    Obj.request( data )
    rpy = cpppo.dotdict()
    with Obj.parser as machine:
        for m,s in machine.run( source=cpppo.peekable( bytes( data.input )), data=rpy ):
            pass
    return rpy

path = {'segment': [{'class': 2}, {'instance': 1}, {'attribute': 99}]}
seen = {}
seen['read_tag'] = run( {'path': path, 'read_tag': {'elements': 1}} ).status
seen['get_attribute_single'] = run( {'path': path, 'get_attribute_single': True} ).status
seen['set_attribute_single'] = run( {'path': path, 'set_attribute_single': {'data': [1, 0]}} ).status
print( "statuses for unknown attribute 99: %s" % ", ".join( "%s 0x%02x" % kv for kv in sorted( seen.items() )))
bad = [ k for k,v in seen.items() if v not in (0x05, 0x14) ]
if bad:
    print( "CONTRADICTION: %s answered 0x08 ( service not supported ) for an unknown attribute; expected 0x05" % ", ".join( sorted( bad )))
    sys.exit( 1 )
print( "OK" )
