"""Triage only (never run by a registered check).  Reproduces defect AQ (C05, rule D-VALIDATE):
a Read Tag [Fragmented] whose element range runs past the end of the tag ( INT[1000], T[500] x 600 ) is
answered with status 0x06 and 244 elements of data; only the fragment that finally reaches the end of the tag is
refused with 0xFF/0x2105.  The same request with a range that fits one reply ( T[995] x 10 ) is refused at once.
Exit 1 while the defect is present.  Run: /venv/bin/python <this file>
"""
import logging, sys
from cpppo.dotdict import dotdict
from cpppo.server.enip import logix, device, parser
from cpppo.server.enip.device import Attribute
device.lookup_reset(); logix.setup_reset()
tags = dotdict()
te = dotdict(); te.attribute = Attribute('T', parser.INT, default=list( range( 1000 ))); te.path=None; te.error=0
dict.__setitem__(tags, 'T', te)
ucmm = logix.setup(tags=tags)
L = device.lookup(2,1)
bad = 0
for what, ctx, beg, elm in ( ( 'read_frag', 'read_frag', 500, 600 ), ( 'read_tag', 'read_tag', 500, 600 ), ( 'read_frag', 'read_frag', 995, 10 ), ( 'read_frag', 'read_frag', 0, 1001 )):
    rd = dotdict(); rd.path = {'segment':[{'symbolic':'T'},{'element':beg}]}
    rd[ctx] = {'elements': elm}
    if ctx == 'read_frag':
        rd[ctx]['offset'] = 0
    L.request( rd )
    n = len( rd[ctx].get( 'data' ) or () )
    print( '%-9s T[%d] x %d: status 0x%02x ext %r, %d elements of data' % ( what, beg, elm, rd.status, rd.get( 'status_ext.data' ), n ))
    if rd.status in ( 0x00, 0x06 ):
        bad += 1
# ... and what fits is still served
rd = dotdict(); rd.path = {'segment':[{'symbolic':'T'},{'element':500}]}; rd.read_frag = {'elements': 500, 'offset': 0}
L.request( rd ); print( 'T[500] x 500: status 0x%02x' % rd.status ); bad += rd.status != 0x06
rd = dotdict(); rd.path = {'segment':[{'symbolic':'T'},{'element':500}]}; rd.read_frag = {'elements': 500, 'offset': 976}
L.request( rd ); print( 'T[500] x 500 @976: status 0x%02x, %d elements' % ( rd.status, len( rd.read_frag.data ))); bad += rd.status != 0x00 or len( rd.read_frag.data ) != 12
sys.exit( 1 if bad else 0 )
