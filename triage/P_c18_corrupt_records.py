import os, sys, tempfile, shutil, json
from cpppo.history import files as hfiles
from cpppo.history import logger, loader, timestamp
BASE=1400000000.0; WALL=2000000000.0
class clk:
    def __init__(s,n): s.now=n
    def __call__(s): return s.now
def scenario( name, build, expect ):
    d=tempfile.mkdtemp()
    try:
        path=os.path.join(d,'h.hst')
        build( path )
        c=clk(WALL); hfiles.timer=c
        ld=loader(path, historical=BASE-1, basis=WALL, factor=1.0)
        got=[]; calls=0
        for step in range(0,30):
            c.now=WALL+step
            while calls < 400:
                calls += 1
                cur,ev=ld.load( limit=50 )
                got+=ev
                if not ev: break
        ts=[ round(e['timestamp'].value-BASE,3) for e in got ]
        ok = ts == expect
        print( '%-34s state %-9s delivered %s %s' % ( name, ld.statename[ld.state], ts[:12], 'OK' if ok else 'WRONG (want %s)' % expect ))
        return ok
    finally:
        shutil.rmtree(d)
def raw( path, lines ):
    with open( path, 'wb' ) as f:
        for l in lines: f.write( l.encode('ascii') + b'\n' )
def rec( t, data ):
    return '\t'.join(( str( timestamp( BASE+t )), 'null', data ))
ok = True
# P: a later file whose records after the first have corrupt JSON (timestamps fine and increasing)
def build_p( path ):
    raw( path+'.1', [ rec( 0, '{"40001": 1}' ), rec( 1, '{"40001": 2}' ) ] )
    raw( path+'.0', [ rec( 5, '{"40001": 5}' ), rec( 6, '{"40001": ' ), rec( 7, '{"40001": ' ) ] )
    raw( path,      [ rec( 9, '{"40001": 9}' ) ] )
ok &= scenario( 'P corrupt-json tail of a file', build_p, [ 0.0, 1.0, 5.0, 9.0 ] )
# Q: a record with a corrupt timestamp after the initial frame
def build_q( path ):
    raw( path+'.0', [ rec( 0, '{"40001": 1}' ), '2014-05-XX garbage\tnull\t{"40001": 7}', rec( 2, '{"40001": 2}' ) ] )
    raw( path,      [ rec( 9, '{"40001": 9}' ) ] )
ok &= scenario( 'Q corrupt timestamp mid-file', build_q, [ 0.0, 2.0, 9.0 ] )
sys.exit( 0 if ok else 1 )
