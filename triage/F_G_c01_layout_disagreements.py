"""Triage only (never run by a registered check).  Reproduces, against the real code, the two
producer/parser layout disagreements that rule L-AGREE (C01) reports:
 F: Write Tag STRUCT request field order;  G: Get Attribute List reply element width.
Run: /venv/bin/python /verif/triage/F_G_c01_layout_disagreements.py
"""
import array, contextlib
from cpppo.dotdict import dotdict
from cpppo.automata import peekable
from cpppo.server.enip import logix, parser, device

def parse( cls, octets ):
    data			= dotdict()
    with cls.parser as m:
        with contextlib.closing( m.run( source=peekable( octets ), data=data )) as e:
            for _ in e:
                pass
    return data

# F
req				= dotdict()
req.path			= {'segment':[{'symbolic':'T'}]}
req.write_tag			= {'type': parser.STRUCT.tag_type, 'structure_tag': 0x1234, 'elements': 1,
                                   'data': {'input': array.array( 'B', [1,2,3,4] )}}
enc				= logix.Logix.produce( req )
dec				= parse( logix.Logix, enc )
print( "F produced %s -> parsed structure_tag=%#x elements=%#x (encoded 0x1234, 1)" % (
    enc.hex(), dec.write_tag.structure_tag, dec.write_tag.elements ))

# G
rpy				= dotdict(); rpy.service = 0x83; rpy.status = 0
rpy.get_attribute_list		= {'data': [1,0, 0,0, 5,0,  2,0, 0,0, 0x34,0x12]}
enc				= device.Object.produce( rpy )
dec				= parse( device.Object, enc )
print( "G produced %s -> parsed data %r" % ( enc.hex(), dec.get_attribute_list.data ))
try:
    print( "G re-produced", device.Object.produce( dec ).hex() )
except Exception as exc:
    print( "G re-produce raised %s: %s" % ( type( exc ).__name__, exc ))
