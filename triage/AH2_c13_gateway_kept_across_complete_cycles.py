"""Follow-up to defect AH: with the gateway context kept open while proxy.read is iterated, a consumer that stops after the LAST value without
exhausting the generator ( zip( params, reader ), as poll.execute does ) closed the generator -> GeneratorExit -> proxy.__exit__ discarded a
healthy gateway after every successful cycle.  The wrapper now discards only if more values were still to come.  exit 0 when the gateway is kept
across complete cycles AND discarded after an early abandon."""
import sys, time, threading, socket
import cpppo
from cpppo.server.enip.main import main as enip_main
from cpppo.server.enip.get_attribute import proxy
ctl = cpppo.dotdict( done=False )
t = threading.Thread( target=enip_main, kwargs=dict( argv=[ '-a', 'localhost:44818', 'A=DINT[4]' ], server=dict( control=ctl )))
t.daemon = True; t.start(); time.sleep( 1.5 )
via = proxy( host='localhost', port=44818, timeout=2.0 )
gws = []
for i in range( 3 ):
    params = [ 'A[0-3]' ]
    reader = via.read( params )
    out = [ v for p, v in zip( params, reader ) ]       # like poll.execute: does not exhaust reader
    reader.close()
    gws.append( id( via.gateway ) if via.gateway is not None else None )
    print( out, via.gateway )
# abandoning mid-stream must discard
reader = via.read( [ 'A[0]', 'A[1]', 'A[2]' ] ); first = next( reader ); reader.close()
print( 'after early abandon:', via.gateway )
ctl.done = True
ok = len( set( gws )) == 1 and gws[0] is not None and via.gateway is None
print( 'kept across complete cycles, discarded after early abandon:', ok )
sys.exit( 0 if ok else 1 )
