"""Triage only (never run by a registered check): reproduces, against the real code,
three table-level defects that the static rules M-EXTENT (C19), T-CLIENT-TYPES (C12)
and T-RESERVED (C16) report.   Run: /venv/bin/python /verif/triage/C_D_E_tables.py
"""
import struct
from cpppo.remote.plc_modbus import merge
from cpppo import dotdict
from cpppo.server.enip import client

# C (C19): a range nested in the previous one shrinks the running extent
print( "merge([(10,10),(12,2)]) ->", list( merge( [(10,10),(12,2)], reach=1 )), " (registers 14-19 dropped)" )

# D (C12): validator accepts what the struct format of the same CIP type rejects
print( "CIP_TYPES['INT'] validator('40000') ->", client.CIP_TYPES['INT'][2]( '40000' ))
try:
    struct.pack( '<h', 40000 )
except struct.error as exc:
    print( "struct.pack('<h', 40000) ->", exc )

# E (C16): attribute form and index form disagree for names found by normal lookup
d = dotdict(); d.fromkeys = 5; d._resolve = 7
print( "d.fromkeys ->", d.fromkeys, "; d['fromkeys'] ->", d['fromkeys'] )
print( "d._resolve ->", type( d._resolve ).__name__, "; d['_resolve'] ->", d['_resolve'] )
