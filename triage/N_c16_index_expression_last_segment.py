import sys
from cpppo.dotdict import dotdict
d = dotdict()
d['a.b'] = 1
d['l'] = [ 10, 20, 30 ]
bad = 0
for key, want in (( 'l[a.b]', 20 ), ( 'l[a.b+1]', 30 ), ( 'l[1]', 20 )):
    try:
        got = d[key]
    except Exception as exc:
        got = 'EXC %s: %s' % ( type( exc ).__name__, exc )
    ok = got == want
    print( repr( key ), '->', got, 'OK' if ok else 'WRONG (want %r)' % want ); bad += not ok
# the same index expression followed by a further segment is handled (test suite covers name[a.b+c].d)
d['m'] = [ dotdict( x=5 ), dotdict( x=6 ) ]
try:
    print( "m[a.b].x ->", d['m[a.b].x'] )
except Exception as exc:
    print( "m[a.b].x -> EXC", exc ); bad += 1
sys.exit( 1 if bad else 0 )
