#!/usr/bin/env python
"""C07 / defect 2: a Get Attributes All member whose path cannot be parsed is *executed* ( on the
Message Router itself ) and answered with status 0 and data.

Bundle sent to the in-process Logix simulator ( tags A = DINT[4], SECRET = DINT[2] ):
    #0  Read Tag A[0]
    #1  01 03 91          Get Attributes All, path of 3 words announced, 1 octet present
    #2  Read Tag A[1]
For comparison the same truncation of Get Attribute Single ( 0E 03 91 ), and a Get Attributes All
with a complete but empty path ( 01 00 ).

Expected ( property C07 ): an invalid member is answered with an error status, like the same request
sent alone ( which gets no successful reply ) and like every other service with the same damage.
Observed: member #1 is answered 81 00 00 00 + the octets of every attribute of the Message Router
( all tag values ): the unparsable member is reduced to its service code, and Object.request runs
Get Attributes All when there is no path at all.
"""
import sys, struct, logging
import cpppo
from cpppo.server.enip import device, logix, parser
from cpppo.server.enip.device import dotdict

logging.disable( logging.CRITICAL )

def setup():
    device.lookup_reset()
    logix.setup_reset()
    tags	= dotdict()
    tags.A	= dotdict( attribute=device.Attribute( 'A',      parser.DINT, default=[1, 2, 3, 4] ), error=0 )
    tags.SECRET	= dotdict( attribute=device.Attribute( 'SECRET', parser.DINT, default=[0x11223344, 0x55667788] ), error=0 )
    logix.setup( tags=tags )

def sym( name, elm=None ):
    b		= name.encode()
    p		= bytes( [0x91, len( b )] ) + b + ( b'\x00' if len( b ) % 2 else b'' )
    if elm is not None:
        p      += bytes( [0x28, elm] )
    return bytes( [len( p ) // 2] ) + p

def rd( path, n=1 ):
    return b'\x4c' + path + struct.pack( '<H', n )

def msp( reqs ):
    n		= len( reqs )
    offs,o	= [],2 + 2 * n
    for r in reqs:
        offs.append( o )
        o      += len( r )
    return ( b'\x0a\x02\x20\x02\x24\x01' + struct.pack( '<H', n )
             + b''.join( struct.pack( '<H', x ) for x in offs ) + b''.join( reqs ))

def send( raw ):
    """Hand one CIP request to the Connection Manager, as the UCMM does for an Unconnected Send."""
    data	= dotdict()
    data.request= dotdict( input=bytearray( raw ))
    try:
        device.lookup( 0x06, 1 ).request( data )
    except Exception as exc:
        return exc
    return bytes( data.request.input )

def members( rpy ):
    assert isinstance( rpy, bytes ) and rpy[0] == 0x8a and rpy[2] == 0, "bundle refused: %r" % ( rpy, )
    body	= rpy[4:]
    n,		= struct.unpack_from( '<H', body )
    offs	= struct.unpack_from( '<%dH' % n, body, 2 ) + ( len( body ), )
    return [ bytes( body[offs[i]:offs[i+1]] ) for i in range( n ) ]

GAA_CUT		= b'\x01\x03\x91'
GAS_CUT		= b'\x0e\x03\x91'
GAA_EMPTY	= b'\x01\x00'

setup()
bundled		= members( send( msp( [ rd( sym( 'A', 0 )), GAA_CUT, rd( sym( 'A', 1 )), GAS_CUT, GAA_EMPTY ] )))
alone		= send( GAA_CUT )

for i,m in enumerate( bundled ):
    print( "member #%d: %s%s" % ( i, m[:24].hex(), '... (%d octets)' % len( m ) if len( m ) > 24 else '' ))
print( "alone    : %r" % ( alone if not isinstance( alone, bytes ) else alone[:24].hex(), ))

bad		= []
if bundled[1][2] == 0:
    bad.append( "member #1 ( Get Attributes All, path cut short ) answered status 0 with %d data octets%s; "
                "expected an error status ( the same damage to Get Attribute Single is answered %s, an empty "
                "path %s )" % ( len( bundled[1] ) - 4,
                                " including the value of tag SECRET" if struct.pack( '<I', 0x11223344 ) in bundled[1] else "",
                                bundled[3].hex(), bundled[4].hex() ))
if isinstance( alone, bytes ) and alone[2] == 0:
    bad.append( "alone it is answered status 0 with %d data octets, too" % ( len( alone ) - 4 ))
if bad:
    print( "CONTRADICTION: " + "; ".join( bad ))
    sys.exit( 1 )
print( "OK: the unparsable member is refused" )
