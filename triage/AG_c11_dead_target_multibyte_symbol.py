"""Defect AG (C11): state.from_regex expands a multi-byte symbol into a chain of byte states BEFORE it looks whether the symbol's target is a
dead state: the leading bytes of a symbol that cannot continue the sentence are consumed, and the machine fails in a non-terminal extra state
instead of stopping (accepting) ahead of it.  regex_bytes 'π' on 'ππ': 3 bytes consumed, NonTerminal; expected 2 consumed, accepted.
exit 1 on the pinned tree, 0 after the fix."""
import sys
import cpppo
bad = 0
def run( rx, text ):
    data = cpppo.dotdict()
    source = cpppo.peekable( text.encode( 'utf-8' ))
    m = cpppo.regex_bytes( name='r', initial=rx, context='x', terminal=True )
    try:
        with m:
            for _ in m.run( source=source, data=data ):
                pass
            return source.sent, m.terminal, None
    except cpppo.NonTerminal:
        return source.sent, 'NonTerminal', None
for rx, text, want in (( u'π', u'ππ', ( 2, True )), ( u'π', u'πa', ( 2, True )), ( u'π+', u'ππb', ( 4, True )), ( u'ab', u'abab', ( 2, True ))):
    sent, term, got = run( rx, text )
    ok = ( sent, term ) == want
    print( '%-6r on %-8r: consumed %d, %-11s %s' % ( rx, text, sent, 'accepted' if term is True else term, 'OK' if ok else 'WRONG, expected %d consumed, accepted' % want[0] ))
    bad += not ok
sys.exit( 1 if bad else 0 )
