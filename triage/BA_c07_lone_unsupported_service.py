"""Triage only (never run by a registered check).  Defects H ( formerly a known finding ) and BA (C07, S-RESOLVE / S-LONE): a request sent ALONE
( unconnected, through Connection_Manager.request ) whose path names an unknown tag / object, or whose service the target does not support,
failed the whole EtherNet/IP request ( exception -> encapsulation status 0x08, session ended ); inside a Multiple Service Packet the same
request is answered 0x05 / 0x08 and its neighbours run.  Exit 1 while alone and bundled differ.  Run: /venv/bin/python <this file>
"""
import sys
from cpppo.dotdict import dotdict
from cpppo.server.enip import logix, device, parser
from cpppo.server.enip.device import Attribute
device.lookup_reset(); logix.setup_reset()
tags = dotdict(); te = dotdict(); te.attribute = Attribute( 'T', parser.INT, default=[0]*4 ); te.path = None; te.error = 0
dict.__setitem__( tags, 'T', te )
logix.setup( tags=tags )
CM = device.lookup( 6, 1 )
def alone( reqbytes ):
    d = dotdict(); d.request = dotdict(); d.request.input = bytearray( reqbytes )
    try:
        CM.request( d, addr=( '1.2.3.4', 1234 ))
        return bytes( bytearray( d.request.input ))
    except Exception as exc:
        return 'EXCEPTION %s' % type( exc ).__name__
def bundled( members ):
    n = len( members ); offs = []; o = 2 + 2 * n
    for m in members:
        offs.append( o ); o += len( m )
    body = bytes( bytearray( [ n & 0xFF, n >> 8 ] )) + b''.join( bytes( bytearray( [ x & 0xFF, x >> 8 ] )) for x in offs ) + b''.join( members )
    d = dotdict(); d.request = dotdict(); d.request.input = bytearray( b'\x0a\x02\x20\x02\x24\x01' + body )
    CM.request( d, addr=( '1.2.3.4', 1234 ))
    return [ bytes( bytearray( r.input )) for r in d.request.multiple.request ]
mk = lambda d: bytes( bytearray( logix.Logix.produce( dotdict( d ))))
cases = [ ( 'Read Tag of unknown tag NOPE', mk( dict( path={ 'segment': [ { 'symbolic': 'NOPE' } ] }, read_tag={ 'elements': 1 } ))),
          ( 'Read Tag of unknown object @0x77/1/1', mk( dict( path={ 'segment': [ { 'class': 0x77 }, { 'instance': 1 }, { 'attribute': 1 } ] }, read_tag={ 'elements': 1 } ))),
          ( 'service 0x4B to @2/1', b'\x4b\x02\x20\x02\x24\x01' ),
          ( 'service 0x4E with data to tag T', b'\x4e\x02\x91\x01T\x00\x01\x00\x02\x00' ),
          ( 'Read Tag of T', mk( dict( path={ 'segment': [ { 'symbolic': 'T' } ] }, read_tag={ 'elements': 1 } ))) ]
bad = 0
for what, rq in cases:
    a = alone( rq ); b = bundled( [ rq ] )[0]
    same = a == b
    print( '%-38s alone %-28r bundled %-28r %s' % ( what, a, b, 'same' if same else 'DIFFERENT' ))
    bad += not same
sys.exit( 1 if bad else 0 )
