#!/usr/bin/env python
"""
C12 defect 5 (unchanged code): get_attribute.proxy.read_details documents that an attribute may be given as

    ( "Tag", None, "kWh" )      "a Tag/address, a type/types (may be None, to force Tag I/O), and an optional
                                 description (eg. Units)"

and promises ([1.23],(0,("Tag",parser.REAL,"kWh"))) for it; its body handles typ is None everywhere ( parser
selection, conversion ).  But the gate proxy.is_request only admits a type that is a string, a class or a list
of those, so the documented spelling is refused with "Not a valid read/write target" before any I/O -- a Tag
cannot be given a units / description text at all ( the only 3-tuple form that passes needs a type, and a type
turns the operation into Get Attribute Single ).

Expected: ( "Scalar", None, "kWh" ) is read with Read Tag, as "Scalar" is, and reports the units.
Exits 1 while the contradiction is present.
"""
from __future__ import print_function
import logging, socket, sys, threading, time

import cpppo
from cpppo.server import enip
from cpppo.server.enip import get_attribute
from cpppo.server.enip.main import main as enip_main

logging.basicConfig( level=logging.CRITICAL )
ADDR				= ('localhost', 12516)

def start():
    control			= cpppo.apidict( enip.timeout, { 'done': False } )
    thr				= threading.Thread( target=enip_main, kwargs=dict(
        argv=[ '--address', '%s:%d' % ADDR, 'Scalar=REAL' ], server={ 'control': control } ))
    thr.daemon			= True
    thr.start()
    for _ in range( 100 ):
        try:
            socket.create_connection( ADDR, timeout=.2 ).close()
            break
        except Exception:
            time.sleep( .1 )
    return control

def details( attribute ):
    via				= get_attribute.proxy( ADDR[0], port=ADDR[1], timeout=5 )
    try:
        with via:
            return [ ( val, sts, att, getattr( typ, '__name__', typ ), uni )
                     for val,(sts,(att,typ,uni)) in via.read_details( [ attribute ] ) ]
    except Exception as exc:
        return "%s: %s" % ( type( exc ).__name__, exc )

control				= start()
try:
    plain			= details( "Scalar" )
    units			= details( ( "Scalar", None, "kWh" ) )
finally:
    control['done']		= True
print( 'read_details( [ "Scalar" ] )                  --> %r' % ( plain, ))
print( 'read_details( [ ( "Scalar", None, "kWh" ) ] ) --> %r' % ( units, ))
expect				= [ ( [0.0], 0, "Scalar", "REAL", "kWh" ) ]
if units != expect:
    print( "CONTRADICTION: expected %r" % ( expect, ))
    sys.exit( 1 )
sys.exit( 0 )
