"""A numeric link is one octet (0..255) and a port one UINT (1..65535) on the wire; texts naming numbers outside of that
spell no segment, yet parse_route_path accepts them (the failure only surfaces when EPATH.produce packs the request, or -
for a simulator configured with such a --route-path - never: it just refuses every routed request)."""
import sys
from cpppo.server.enip import device, parser

bad = []
for text in ( '1/256', '1/-1', '70000/1', '[{"port": 1, "link": 1000}]' ):
    try:
        got = device.parse_route_path( text )
    except Exception as exc:
        print( "%-30s refused: %s" % ( text, exc ))
        continue
    try:
        wire = parser.route_path.produce( { 'segment': [ parser.dotdict( s ) for s in got ] } )
    except Exception as exc:
        wire = "%s: %s" % ( type( exc ).__name__, exc )
    print( "%-30s ==> %r; on the wire: %r" % ( text, got, wire ))
    bad.append( text )
if bad:
    print( "OBSERVED: parse_route_path accepted %s, which no port segment can carry" % ( ", ".join( bad )))
    print( "EXPECTED: refused by port_link, like port 0 is" )
    sys.exit( 1 )
print( "OK" )
