"""Defect AH (C13): proxy.maintain_gateway wraps `with inst: return function( ... )`.  proxy.read / .write are GENERATOR functions: the `with`
is left as soon as the generator object is returned - before any I/O - so an exception raised while iterating never reaches proxy.__exit__, and
the gateway is NOT discarded (the decorator's docstring says it is).  After a timed-out read the late reply is still in flight; the next
read (contexts restart at b'0') takes it: B is answered with A's data, without any error.
Simulator + relay that delays one reply.  exit 1 on the pinned tree, 0 after the fix."""
import sys, time, socket, threading, select
import cpppo
from cpppo.server.enip.main import main as enip_main
from cpppo.server.enip.get_attribute import proxy

SRV = 44818; RLY = 44902
ctl = cpppo.dotdict( done=False )
t = threading.Thread( target=enip_main, kwargs=dict( argv=[ '-a', 'localhost:%d' % SRV, 'A=DINT[4]', 'B=DINT[4]' ], server=dict( control=ctl )))
t.daemon = True; t.start()
time.sleep( 1.5 )

class Relay( threading.Thread ):
    def __init__( self ):
        super( Relay, self ).__init__(); self.daemon = True
        self.lsn = socket.socket(); self.lsn.setsockopt( socket.SOL_SOCKET, socket.SO_REUSEADDR, 1 ); self.lsn.bind(( 'localhost', RLY )); self.lsn.listen( 5 )
        self.pairs = []; self.delay = 0
    def run( self ):
        while True:
            r, _, _ = select.select( [ self.lsn ] + [ s for p in self.pairs for s in p ], [], [], 0.05 )
            for s in r:
                if s is self.lsn:
                    c, _ = self.lsn.accept(); u = socket.create_connection(( 'localhost', SRV )); self.pairs.append(( c, u ))
                    continue
                for a, b in list( self.pairs ):
                    if s in ( a, b ):
                        try:
                            d = s.recv( 4096 )
                        except Exception:
                            d = b''
                        if not d:
                            a.close(); b.close(); self.pairs.remove(( a, b ))
                        else:
                            if s is b and self.delay:		# server -> client: hold this reply back
                                time.sleep( self.delay ); self.delay = 0
                            try:
                                ( b if s is a else a ).sendall( d )
                            except Exception:
                                pass
relay = Relay(); relay.start()

via = proxy( host='localhost', port=RLY, timeout=1.0 )
with via:
    list( via.write( [ 'A[0-3]=(DINT)11,12,13,14', 'B[0-3]=(DINT)21,22,23,24' ] ))
print( 'A: %r' % list( via.read( [ 'A[0-3]' ] )))
relay.delay = 2.0
try:
    print( 'A, reply delayed beyond the timeout: %r' % list( via.read( [ 'A[0-3]' ] )))
except Exception as exc:
    print( 'A, reply delayed beyond the timeout: %s: %s' % ( type( exc ).__name__, str( exc )[:70] ))
print( 'gateway after the failure: %r' % via.gateway )
time.sleep( 1.5 )		# the late reply to A arrives
try:
    b = list( via.read( [ 'B[0-3]' ] ))
except Exception as exc:
    b = '%s: %s' % ( type( exc ).__name__, str( exc )[:70] )
print( 'B: %r' % ( b, ))
ctl.done = True
ok = b == [ [ 21, 22, 23, 24 ] ]
print( 'B read its own data: %s' % ok )
sys.exit( 0 if ok else 1 )
