"""C08 defect 1: a SendRRData whose address item (CPF item 0) is not the Null Address item alters a tag and is
then answered with an EtherNet/IP error, the session being dropped.

An Unconnected request carries the Null Address item (type 0x0000, length 0) as CPF item 0.  The UCMM
only looks at item 0's .length: an item of any *known* other type (0x00a1 Connected Address, 0x0001,
0x000c, 0x0100, 0x00b1, 0x00b2) and length 0 is taken for "unconnected", the Write Tag in item 1 is
executed -- and then producing the reply fails (CPF.produce finds no payload for the item type), so
the client is told EtherNet/IP status 0x08 and loses its session, while the tag has changed.

Expected: such a malformed request is refused before anything is executed (tag unchanged), or it
is executed and acknowledged; observed: tag altered AND error status / session dropped.
Exit 1 while the contradiction is present."""
from __future__ import print_function
import logging, socket, struct, sys, threading, time

import cpppo
from cpppo.server.enip.main import main as enip_main

PORT				= 44818
ADDR				= ( 'localhost', PORT )

def frame( command, payload, session=0 ):
    return struct.pack( '<HHII8sI', command, len( payload ), session, 0, b'\0' * 8, 0 ) + payload

def recv_frame( sock, timeout=10.0 ):
    """One EtherNet/IP frame (b'' on EOF / nothing within timeout)"""
    sock.settimeout( timeout )
    buf				= b''
    try:
        while len( buf ) < 24 or len( buf ) < 24 + struct.unpack( '<H', buf[2:4] )[0]:
            got			= sock.recv( 4096 )
            if not got:
                break
            buf		       += got
    except socket.timeout:
        pass
    return buf

def session():
    sock			= socket.create_connection( ADDR, timeout=5 )
    sock.sendall( frame( 0x0065, b'\x01\x00\x00\x00' ))
    return sock, struct.unpack( '<I', recv_frame( sock )[4:8] )[0]

def send_rr( request, handle, item0=( 0x0000, b'' ), item1_length=None, trailer=b'' ):
    """SendRRData: address item (default: Null) + Unconnected Data item carrying the bare request"""
    cpf				= struct.pack( '<IHH', 0, 8, 2 ) \
                                  + struct.pack( '<HH', item0[0], len( item0[1] )) + item0[1] \
                                  + struct.pack( '<HH', 0x00b2, len( request ) if item1_length is None else item1_length ) \
                                  + request + trailer
    return frame( 0x006f, cpf, session=handle )

def symbolic( name ):
    name			= name.encode( 'iso-8859-1' )
    return b'\x91' + struct.pack( 'B', len( name )) + name + ( b'\0' if len( name ) % 2 else b'' )

def read_tag( name, elements ):
    path			= symbolic( name )
    return b'\x4c' + struct.pack( 'B', len( path ) // 2 ) + path + struct.pack( '<H', elements )

def read_dints( name, elements ):
    """Read Tag from a fresh session, to see what the tag holds."""
    sock, handle		= session()
    try:
        sock.sendall( send_rr( read_tag( name, elements ), handle ))
        reply			= recv_frame( sock )[40:]
        assert reply[:6] == b'\xcc\x00\x00\x00\xc4\x00', "Read Tag %s failed: %r" % ( name, reply )
        return list( struct.unpack( '<%di' % elements, reply[6:6+4*elements] ))
    finally:
        sock.close()

def start( *tags ):
    logging.disable( logging.CRITICAL )
    control			= cpppo.apidict( 1.0, { 'done': False } )
    server			= threading.Thread( target=enip_main, kwargs=dict(
        argv=[ '--no-udp', '--address', '%s:%d' % ADDR ] + list( tags ),
        server=dict( control=control )))
    server.daemon		= True
    server.start()
    for _ in range( 100 ):
        try:
            socket.create_connection( ADDR, timeout=1 ).close()
            return control
        except Exception:
            time.sleep( .1 )
    raise RuntimeError( "simulator did not start" )

def main():
    control			= start( 'DI=DINT[4]' )
    try:
        before			= read_dints( 'DI', 4 )
        write			= b'\x4d\x02' + symbolic( 'DI' ) + struct.pack( '<HH', 0x00c4, 2 ) + struct.pack( '<ii', 7, 8 )
        bad			= 0
        for type_id in ( 0x00a1, 0x0001, 0x000c, 0x0100 ):
            sock, handle	= session()
            sock.sendall( send_rr( write, handle, item0=( type_id, b'' )))
            reply		= recv_frame( sock )
            sock.close()
            status		= struct.unpack( '<I', reply[8:12] )[0] if len( reply ) >= 24 else None
            after		= read_dints( 'DI', 4 )
            print( "address item type 0x%04x: reply EtherNet/IP status %r, %d payload bytes; DI %r --> %r" % (
                type_id, status, max( 0, len( reply ) - 24 ), before, after ))
            if after != before and status != 0:
                print( "  observed: tag altered although the request was answered with an error (status %r, session dropped);"
                       " expected: tag unchanged when the request is refused" % ( status, ))
                bad	       += 1
            # put it back (a well-formed write)
            sock, handle	= session()
            sock.sendall( send_rr( b'\x4d\x02' + symbolic( 'DI' ) + struct.pack( '<HH', 0x00c4, 4 )
                                   + struct.pack( '<4i', *before ), handle ))
            recv_frame( sock ); sock.close()
        return 1 if bad else 0
    finally:
        control['done']		= True

if __name__ == "__main__":
    sys.exit( main() )
