"""Triage only (never run by a registered check).  C18: "comment lines and corrupt records after the initial frame are skipped
without losing the records around them" - a comment line ( or a corrupt record ) holding octets that are not ASCII / not UTF-8.
Exit 1 if a record around such a line is lost or the loader fails.  Run: /venv/bin/python <this file>
"""
import os, sys, tempfile, shutil, json
from cpppo.history import files as hfiles
from cpppo.history import logger, loader, timestamp
BASE=1400000000.0; WALL=2000000000.0
class clk:
    def __init__(s,n): s.now=n
    def __call__(s): return s.now
def scenario( name, build, expect ):
    d=tempfile.mkdtemp()
    try:
        path=os.path.join(d,'h.hst')
        build( path )
        c=clk(WALL); hfiles.timer=c
        ld=loader(path, historical=BASE-1, basis=WALL, factor=1.0)
        got=[]; calls=0
        try:
            for step in range(0,30):
                c.now=WALL+step
                while calls < 400:
                    calls += 1
                    cur,ev=ld.load( limit=50 )
                    got+=ev
                    if not ev: break
        except Exception as exc:
            print( '%-34s RAISED %s: %s' % ( name, type( exc ).__name__, exc )); return False
        ts=[ round(e['timestamp'].value-BASE,3) for e in got ]
        ok = ts == expect
        print( '%-34s state %-9s delivered %s %s' % ( name, ld.statename[ld.state], ts[:12], 'OK' if ok else 'WRONG (want %s)' % expect ))
        return ok
    finally:
        shutil.rmtree(d)
def raw( path, lines ):
    with open( path, 'wb' ) as f:
        for l in lines: f.write(( l if isinstance( l, bytes ) else l.encode('ascii')) + b'\n' )
def rec( t, data ):
    return '\t'.join(( str( timestamp( BASE+t )), 'null', data ))
ok = True
def build_a( path ):
    raw( path+'.0', [ rec( 0, '{"40001": 1}' ), u'# caf\xe9 restarted'.encode( 'utf-8' ), rec( 2, '{"40001": 2}' ) ] )
    raw( path,      [ rec( 9, '{"40001": 9}' ) ] )
ok &= scenario( 'UTF-8 comment mid-file', build_a, [ 0.0, 2.0, 9.0 ] )
def build_b( path ):
    raw( path+'.0', [ rec( 0, '{"40001": 1}' ), u'# caf\xe9 restarted'.encode( 'latin-1' ), rec( 2, '{"40001": 2}' ) ] )
    raw( path,      [ rec( 9, '{"40001": 9}' ) ] )
ok &= scenario( 'Latin-1 comment mid-file', build_b, [ 0.0, 2.0, 9.0 ] )
def build_c( path ):
    raw( path+'.0', [ rec( 0, '{"40001": 1}' ), rec( 1, '{"40001": 1' ).encode( 'ascii' ) + b'\xff\xfe', rec( 2, '{"40001": 2}' ) ] )
    raw( path,      [ rec( 9, '{"40001": 9}' ) ] )
ok &= scenario( 'corrupt (binary) record mid-file', build_c, [ 0.0, 2.0, 9.0 ] )
sys.exit( 0 if ok else 1 )
