#!/usr/bin/env python
"""C07 / defect 3: a request that cannot be parsed completely and is addressed to an Object other than
the Message Router gets a different status alone and inside a Multiple Service Packet.

Requests ( in-process Logix simulator, standard Objects ):
    Read Tag             @1/1/7  with its element count cut to one octet    4C 03 20 01 24 01 30 07 01
    Read Tag Fragmented  @1/1/7  with its offset cut to two octets          52 03 20 01 24 01 30 07 01 00 00 00
    Write Tag            @0xF5/1/6 DINT, 1 element, two data octets         4D 03 20 F5 24 01 30 06 C4 00 01 00 01 02
Each is sent alone, and as the middle member of a bundle between two valid Read Tag requests.

Expected ( property C07 ): the reply embedded in the bundle equals the individual reply.
Observed: alone XX 00 08 00 ( the stand-in that keeps only the service code is handed to the Object
the path names - Identity / TCPIP - which does not know the service ), in the bundle
XX 00 05 01 00 00 ( the stand-in is handed to the Message Router, which looks for a path ).
"""
import sys, struct, logging
import cpppo
from cpppo.server.enip import device, logix, parser
from cpppo.server.enip.device import dotdict

logging.disable( logging.CRITICAL )

def setup():
    device.lookup_reset()
    logix.setup_reset()
    tags	= dotdict()
    tags.A	= dotdict( attribute=device.Attribute( 'A', parser.DINT, default=[1, 2, 3, 4] ), error=0 )
    logix.setup( tags=tags )

def sym( name, elm=None ):
    b		= name.encode()
    p		= bytes( [0x91, len( b )] ) + b + ( b'\x00' if len( b ) % 2 else b'' )
    if elm is not None:
        p      += bytes( [0x28, elm] )
    return bytes( [len( p ) // 2] ) + p

def rd( path, n=1 ):
    return b'\x4c' + path + struct.pack( '<H', n )

def msp( reqs ):
    n		= len( reqs )
    offs,o	= [],2 + 2 * n
    for r in reqs:
        offs.append( o )
        o      += len( r )
    return ( b'\x0a\x02\x20\x02\x24\x01' + struct.pack( '<H', n )
             + b''.join( struct.pack( '<H', x ) for x in offs ) + b''.join( reqs ))

def send( raw ):
    data	= dotdict()
    data.request= dotdict( input=bytearray( raw ))
    try:
        device.lookup( 0x06, 1 ).request( data )
    except Exception as exc:
        return repr( exc ).encode()
    return bytes( data.request.input )

def members( rpy ):
    assert rpy[0] == 0x8a and rpy[2] == 0, "bundle refused: %r" % ( rpy, )
    body	= rpy[4:]
    n,		= struct.unpack_from( '<H', body )
    offs	= struct.unpack_from( '<%dH' % n, body, 2 ) + ( len( body ), )
    return [ bytes( body[offs[i]:offs[i+1]] ) for i in range( n ) ]

CASES		= [
    ( "Read Tag @1/1/7, count cut",			bytes.fromhex( '4c0320012401300701' )),
    ( "Read Tag Fragmented @1/1/7, offset cut",		bytes.fromhex( '520320012401300701000000' )),
    ( "Write Tag @0xF5/1/6 DINT, half an element",	bytes.fromhex( '4d0320f524013006c40001000102' )),
]
good		= rd( sym( 'A', 1 ))

failed		= 0
for what,raw in CASES:
    setup()
    alone	= send( raw )
    setup()
    bundled	= members( send( msp( [ good, raw, good ] )))
    same	= alone == bundled[1]
    print( "%-45s alone %-14s bundled %-14s %s" % ( what, alone.hex(), bundled[1].hex(), "same" if same else "DIFFERENT" ))
    if not same:
        failed += 1
if failed:
    print( "CONTRADICTION: %d of %d invalid requests are answered differently alone and as a bundle member "
           "( expected identical status / extended status )" % ( failed, len( CASES )))
    sys.exit( 1 )
print( "OK: alone == bundled" )
