"""Triage only (never run by a registered check).  Reproduces defect A (C05, rule T-ALLOWED):
a Write Tag of UINT 40000 into an INT tag is acknowledged with status 0, after which every read of
the tag raises struct.error outside the request handler's try.  Run: /venv/bin/python <this file>
"""
import logging, sys
from cpppo.dotdict import dotdict
from cpppo.server.enip import logix, device, parser
from cpppo.server.enip.device import Attribute
device.lookup_reset(); logix.setup_reset()
tags = dotdict()
te = dotdict(); te.attribute = Attribute('T', parser.INT, default=[0]*4); te.path=None; te.error=0
dict.__setitem__(tags, 'T', te)
ucmm = logix.setup(tags=tags)
L = device.lookup(2,1)
# write UINT 40000 into INT tag
req = dotdict(); req.path={'segment':[{'symbolic':'T'},{'element':1}]}
req.write_tag = {'type': parser.UINT.tag_type, 'elements':1, 'data':[40000]}
L.request(req)
print('write status', req.status, req.get('status_ext'))
print('tag now', te.attribute.value)
rd = dotdict(); rd.path={'segment':[{'symbolic':'T'}]}; rd.read_tag={'elements':4}
try:
    L.request(rd); print('read status', rd.status)
except Exception as e:
    print('READ RAISED', type(e).__name__, e)
