#!/usr/bin/env python
"""C05 defect 2: device.resolve silently skips class / instance / attribute segments that follow a
completely resolved Tag, so a request naming  <Tag> + Attribute 99  (unknown) -- or <Tag> + the
Attribute number of ANOTHER tag, or <Tag> + Class 9 -- is executed on <Tag>.  ( 7865e2c stopped the
same skipping for symbolic segments only. )

Input:    Write Tag, path [ symbolic 'COUNTS', attribute 99 ], DINT, 1 element == 999
          Set Attribute Single, path [ symbolic 'COUNTS', attribute 2 ] ( 2 is tag OTHER )
Expected: 0x05 ( path destination unknown ) / a refusal; all tags unchanged
Observed: status 0x00 and COUNTS modified
"""
from __future__ import print_function
import sys
import cpppo
from cpppo.server import enip
from cpppo.server.enip import logix, device, parser

def transact( obj, request ):
    encoded			= obj.produce( cpppo.dotdict( request ))
    data			= cpppo.dotdict()
    with obj.parser as machine:
        for _ in machine.run( source=cpppo.rememberable( encoded ), data=data ):
            pass
    obj.request( data )
    return data

def main():
    enip.lookup_reset()
    obj				= logix.Logix( instance_id=1 )
    counts = obj.attribute['1']	= device.Attribute( 'COUNTS', parser.DINT, default=[1, 2, 3] )
    other  = obj.attribute['2']	= device.Attribute( 'OTHER',  parser.DINT, default=[7, 8, 9] )
    for n,a in (( 'COUNTS', 1 ), ( 'OTHER', 2 )):
        device.redirect_tag( n, {'class': obj.class_id, 'instance': obj.instance_id, 'attribute': a} )

    bad				= []
    for what,request in [
        ( "Write Tag [COUNTS, attribute 99]",
          dict( path={'segment': [ {'symbolic': 'COUNTS'}, {'attribute': 99} ]},
                write_tag=dict( type=parser.DINT.tag_type, data=[999] ))),
        ( "Write Tag [COUNTS, class 9]",
          dict( path={'segment': [ {'symbolic': 'COUNTS'}, {'class': 9} ]},
                write_tag=dict( type=parser.DINT.tag_type, data=[999] ))),
        ( "Set Attribute Single [COUNTS, attribute 2 (OTHER)]",
          dict( path={'segment': [ {'symbolic': 'COUNTS'}, {'attribute': 2} ]},
                set_attribute_single=dict( data=[0xEE] * 12 ))),
    ]:
        counts.value[:]		= [1, 2, 3]
        other.value[:]		= [7, 8, 9]
        data			= transact( obj, request )
        print( "%-52s: status 0x%02x; COUNTS %r, OTHER %r" % ( what, data.status, counts.value, other.value ))
        if data.status == 0 or counts.value != [1, 2, 3] or other.value != [7, 8, 9]:
            bad.append( "%s: status 0x%02x, COUNTS %r, OTHER %r; expected a failure status and nothing changed" % (
                what, data.status, counts.value, other.value ))
    for b in bad:
        print( "CONTRADICTION: " + b )
    return 1 if bad else 0

if __name__ == "__main__":
    sys.exit( main() )
