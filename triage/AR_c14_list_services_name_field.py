"""Triage only (never run by a registered check).  Known finding AR (C14, rule L-SPEC): the ListServices reply item produced by
communications_service.produce carries the service name as "Communications" + one NUL ( 15 octets, item length 0x13 ); the encapsulation
specification ( Vol 2, 2-4.6.3 ) defines the name as ARRAY[16] of USINT, NUL padded ( item length 0x14 ) - a decoder written from the
table reads 16 octets and finds 15.  Conversely cpppo's own parser stops one octet short of a conformant item ( not terminal ).
The 19-octet form is pinned by server/enip_test.py::test_enip_listservices ( produce() == commserv_1 ), so it is recorded, not repaired.
Exit 1 while present.  Run: /venv/bin/python <this file>
"""
import struct, sys
import cpppo
from cpppo.server.enip import parser
d = cpppo.dotdict( version=1, capability=0x20, service_name='Communications' )
out = parser.communications_service.produce( d )
print( 'produced item body: %d octets ( spec: 2 + 2 + 16 = 20 )' % len( out ))
item = struct.pack( '<HHHH', 0x0100, 20, 1, 0x20 ) + b'Communications\0\0'
body = struct.pack( '<H', 1 ) + item
data = cpppo.dotdict(); data.enip = dict( command=0x0004, length=len( body ))
src = cpppo.chainable( body )
with parser.CIP() as m:
    for _ in m.run( source=src, data=data, path='enip' ): pass
    print( 'conformant reply parsed to a terminal state: %s; octets left over: %r' % ( m.terminal, src.peek() ))
    bad = len( out ) != 20 or not m.terminal
sys.exit( 1 if bad else 0 )
