import os, sys, tempfile, shutil
from cpppo.history import files as hfiles
from cpppo.history import logger, loader
BASE=1400000000.0; WALL=2000000000.0
class clk:
    def __init__(s,n): s.now=n
    def __call__(s): return s.now
d=tempfile.mkdtemp()
try:
    path=os.path.join(d,'h.hst')
    # .1: records t=0,1 ; .0: ONE record t=5 ; current: record t=9
    with logger(path+'.1') as l:
        l.write({40001:0}, now=BASE+0); l.write({40001:1}, now=BASE+1)
    with logger(path+'.0') as l:
        l.write({40001:5}, now=BASE+5)
    with logger(path) as l:
        l.write({40001:9}, now=BASE+9)
    c=clk(WALL); hfiles.timer=c
    ld=loader(path, historical=BASE, basis=WALL, factor=1.0)
    got=[]
    for step in range(0,15):
        c.now=WALL+step      # one-second steps: file .0 is opened at t=1..2, while its only record (t=5) is still in the future
        while True:
            cur,ev=ld.load()
            got+=ev
            if not ev: break
    print('state',ld.statename[ld.state],'events',[ (e['timestamp'].value-BASE, e['values']) for e in got])
    sys.exit(0 if len(got)==4 else 1)
finally:
    shutil.rmtree(d)
