"""Defect AI (C20): tnet_from's discard loops test `source.peek() and source.peek() in ignore`: the symbol 0 is falsy, so with ignore=b'\\x00' a NUL
separator is never discarded and reaches the length parser.  exit 1 on the pinned tree, 0 after the fix."""
import sys
from cpppo.server import tnet, network
class Conn( object ):
    def __init__( self, chunks ): self.chunks = list( chunks )
network.recv = lambda conn, maxlen=1024, timeout=None: conn.chunks.pop( 0 ) if conn.chunks else b''
bad = 0
for chunks in ( [ b'1:a,\x001:b,' ], [ b'1:a,', b'\x001:b,' ], [ b'1:a,\x00', b'\x001:b,' ] ):
    try:
        got = [ m for m in tnet.tnet_from( Conn( chunks ), ( 'x', 1 ), ignore=b'\x00', timeout=0.1 ) if m is not None ]
    except Exception as exc:
        got = 'EXC %s' % type( exc ).__name__
    ok = [ g.encode() if not isinstance( g, bytes ) else g for g in got ] == [ b'a', b'b' ] if isinstance( got, list ) else False
    print( '%-30r -> %r %s' % ( chunks, got, 'OK' if ok else 'WRONG' ))
    bad += not ok
sys.exit( 1 if bad else 0 )
