#!/usr/bin/env python
"""A blank-padded value list is accepted for every type except BOOL: the values are "a comma-separated,
whitespace-padded single-line list", and '(REAL)1 , 2' or '(INT)1 , 2' parse, but '(BOOL)true , false'
is refused because bool_validate compares the un-stripped word ( '(BOOL)1 , 0' works, through int() ).
"""
import sys
from cpppo.server.enip import client

bad = []
for text,exp in (
        ( 'Tag[0-1]=(INT)1 , 0',          [1, 0] ),		# reference
        ( 'Tag[0-1]=(REAL)1 , 0',         [1.0, 0.0] ),		# reference
        ( 'Tag[0-1]=(BOOL)1 , 0',         [True, False] ),	# reference
        ( 'Tag[0-1]=(BOOL)true,false',    [True, False] ),	# reference
        ( 'Tag[0-1]=(BOOL)true , false',  [True, False] ),
        ( 'Tag[0-1]=(BOOL)false ,true',   [False, True] ),
):
    try:
        op, = client.parse_operations( [ text ] )
        got = op['data']
    except Exception as exc:
        got = "%s: %s" % ( type( exc ).__name__, exc )
    if got != exp:
        bad.append( "%-32r observed %r, expected data %r" % ( text, got, exp ))
if bad:
    print( "\n".join( bad ))
    sys.exit( 1 )
print( "OK" )
