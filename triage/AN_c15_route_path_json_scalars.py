"""Defect AN (C15): device.parse_route_path( '0' | 'false' | 'null' ) - the documented way to configure "accept only an empty route path" -
raised TypeError: the assertion inside the JSON try demands a list, so the scalars the else-branch admits fall into the handler for non-JSON
text, which slices the already decoded value.   exit 1 before the fix, 0 after."""
import sys
from cpppo.server.enip import device
bad = 0
for text, want in (( '0', 0 ), ( 'false', False ), ( 'null', None ), ( '[]', [] ), ( '1/2', [ { 'port': 1, 'link': 2 } ] )):
    try:
        got = device.parse_route_path( text )
    except Exception as exc:
        got = 'EXC %s' % type( exc ).__name__
    ok = got == want and type( got ) is type( want )
    print( '%-8r -> %-30r %s' % ( text, got, 'OK' if ok else 'WRONG, expected %r' % ( want, )))
    bad += not ok
sys.exit( 1 if bad else 0 )
