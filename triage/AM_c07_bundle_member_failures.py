"""Known finding AM (C07): two ways in which ONE member of a Multiple Service Packet takes its neighbours with it:
 (1) a member that fails to PARSE ( truncated Read Tag ) raises inside the post-processing closure; dfa_post.__exit__ only logs it; the request
     list holds the members parsed so far: the reply is status 0 with FEWER member replies than requests, later members are never executed;
 (2) a member whose service the target does not support ( 0x55 with data ) makes Object.request raise RequestUnrecognized out of
     Message_Router.request's member loop: the whole bundle is answered 0x8A status 0x08 with NO member replies - although the members before
     it were executed.
Object level ( Logix produce -> parse -> request ).   exit 1 while the finding stands."""
import sys
import cpppo
from cpppo.server.enip import device, logix, parser
logix.setup()
att = device.Attribute( 'N', parser.REAL, default=[ 0.0 ] )
logix.setup_tag( 'N', cpppo.dotdict( attribute=att ))
MR = device.lookup( 0x02, 1 )
def member( d ):
    return bytes( bytearray( logix.Logix.produce( cpppo.dotdict( d ))))
w2 = member( { 'path': { 'segment': [ cpppo.dotdict( symbolic='N' ) ] }, 'write_tag': { 'elements': 1, 'data': [ 2.0 ], 'type': parser.REAL.tag_type } } )
w3 = member( { 'path': { 'segment': [ cpppo.dotdict( symbolic='N' ) ] }, 'write_tag': { 'elements': 1, 'data': [ 3.0 ], 'type': parser.REAL.tag_type } } )
rd = member( { 'path': { 'segment': [ cpppo.dotdict( symbolic='N' ) ] }, 'read_tag': { 'elements': 1 } } )
def bundle( members ):
    n = len( members ); offs = []; o = 2 + 2 * n
    for m in members:
        offs.append( o ); o += len( m )
    body = bytes( bytearray( [ n & 0xFF, n >> 8 ] )) + b''.join( bytes( bytearray( [ x & 0xFF, x >> 8 ] )) for x in offs ) + b''.join( members )
    return b'\x0a\x02\x20\x02\x24\x01' + body
def run( members ):
    data = cpppo.dotdict()
    with MR.parser as machine:
        for m, s in machine.run( source=cpppo.peekable( bundle( members )), data=data ):
            pass
    MR.request( data )
    return data
bad = 0
att[0] = 0.0
d = run( [ w2, rd[:-1], w3 ] )
n = len( d.get( 'multiple.request', [] ))
print( '(1) [ write 2.0, truncated read, write 3.0 ]: status 0x%02x, %d member replies, N == %r   (expected 3 replies, N == 3.0)' % ( d.status, n, att[0] ))
bad += not ( n == 3 and att[0] == 3.0 )
att[0] = 0.0
d = run( [ w2, b'\x55\x02\x20\x02\x24\x01\x01\x02', w3 ] )
n = len( [ r for r in d.get( 'multiple.request', [] ) if 'input' in r ] )
print( '(2) [ write 2.0, service 0x55 + data, write 3.0 ]: status 0x%02x, %d produced member replies, N == %r   (expected status 0, 3 replies, N == 3.0)' % ( d.status, n, att[0] ))
bad += not ( d.status == 0 and n == 3 and att[0] == 3.0 )
sys.exit( 1 if bad else 0 )
