"""Triage only (never run by a registered check).  Defect AZ (C04 / C03 / C05), from four round-6 agents:
 (a) Write Tag Fragmented at a byte offset INSIDE an element ( INT tag, offset 3 ) is acknowledged 0x00 and stored at the element the offset
     rounds down to; the same offset on Read Tag Fragmented is refused 0xFF/0x2105;
 (b) tiles of a NARROWER type ( SINT data into a DINT tag, which the type table admits ): the byte offset was divided by the tag's element size,
     not the size of the type transmitted - two tiles [0..4] at offset 0 and [5..9] at offset 5 land on elements 0-4 and 1-5.
Exit 1 while present.  Run: /venv/bin/python <this file>
"""
import sys
from cpppo.dotdict import dotdict
from cpppo.server.enip import logix, device, parser
from cpppo.server.enip.device import Attribute
device.lookup_reset(); logix.setup_reset()
tags = dotdict()
for nm, typ, n in (( 'I', parser.INT, 10 ), ( 'D', parser.DINT, 12 )):
    te = dotdict(); te.attribute = Attribute( nm, typ, default=[ -1 ] * n ); te.path = None; te.error = 0
    dict.__setitem__( tags, nm, te )
logix.setup( tags=tags )
L = device.lookup( 2, 1 )
def wfrag( tag, typ, elements, offset, data ):
    rq = dotdict(); rq.path = { 'segment': [ { 'symbolic': tag } ] }
    rq.write_frag = { 'type': typ.tag_type, 'elements': elements, 'offset': offset, 'data': list( data ) }
    L.request( rq ); return rq.status
bad = 0
st = wfrag( 'I', parser.INT, 4, 3, [ 99, 98 ] )
print( '(a) INT tag, 2 elements at byte offset 3: status 0x%02x, tag %r' % ( st, tags.I.attribute[0:10] ))
bad += st == 0 or tags.I.attribute[0:10] != [ -1 ] * 10
s1 = wfrag( 'D', parser.SINT, 10, 0, range( 100, 105 )); s2 = wfrag( 'D', parser.SINT, 10, 5, range( 105, 110 ))
print( '(b) DINT tag, SINT tiles at offsets 0 and 5: statuses 0x%02x 0x%02x, tag %r' % ( s1, s2, tags.D.attribute[0:12] ))
bad += not (( s1 == 0 and s2 == 0 and tags.D.attribute[0:12] == list( range( 100, 110 )) + [ -1, -1 ] ) or ( s2 != 0 and tags.D.attribute[5:12] == [ -1 ] * 7 ))
# same-type tiles still tile
tags.D.attribute[0:12] = [ -1 ] * 12
s1 = wfrag( 'D', parser.DINT, 10, 0, range( 0, 5 )); s2 = wfrag( 'D', parser.DINT, 10, 20, range( 5, 10 ))
print( '    DINT tiles at offsets 0 and 20: statuses 0x%02x 0x%02x, tag %r' % ( s1, s2, tags.D.attribute[0:12] ))
bad += not ( s1 == 0 and s2 == 0 and tags.D.attribute[0:12] == list( range( 10 )) + [ -1, -1 ] )
sys.exit( 1 if bad else 0 )
