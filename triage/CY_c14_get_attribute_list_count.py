#!/usr/bin/env python
"""Shared by the defect reproducers: starts the simulator in-process, and a reference EtherNet/IP client
written from the CIP tables ( no cpppo code on the client side )."""
from __future__ import print_function

import socket
import struct
import threading
import time

from cpppo.dotdict import dotdict, apidict
from cpppo.server.enip import main as enip_main

PORT				= 44818

def simulator( tags, extra=(), **kwds ):
    ctl				= dotdict( control=apidict( timeout=1.0 ))
    ctl.control.done		= False
    argv			= [ '--no-config', '--address', '127.0.0.1:%d' % PORT ] + list( extra ) + list( tags )
    thr				= threading.Thread( target=enip_main.main, kwargs=dict( argv=argv, server=ctl, **kwds ))
    thr.daemon			= True
    thr.start()
    for _ in range( 100 ):
        try:
            socket.create_connection( ('127.0.0.1', PORT), timeout=.5 ).close()
            break
        except Exception:
            time.sleep( .1 )
    else:
        raise RuntimeError( "simulator didn't start" )
    def stop():
        ctl.control.done	= True
        thr.join( 5 )
    return stop


def hexs( octets ):
    return ' '.join( '%02x' % b for b in bytearray( octets ))


def symbolic( tag, *elements ):
    path			= b''
    for name in tag.split( '.' ):
        name			= name.encode( 'iso-8859-1' )
        path		       += b'\x91' + struct.pack( 'B', len( name )) + name + ( b'\x00' if len( name ) % 2 else b'' )
    for element in elements:
        path		       += struct.pack( 'BB', 0x28, element )
    return struct.pack( 'B', len( path ) // 2 ) + path

def read_tag( tag, count=1, *elements ):
    return b'\x4C' + symbolic( tag, *elements ) + struct.pack( '<H', count )

def read_frag( tag, count=1, offset=0, *elements ):
    return b'\x52' + symbolic( tag, *elements ) + struct.pack( '<HI', count, offset )

def write_tag( tag, typ, count, data, *elements ):
    return b'\x4D' + symbolic( tag, *elements ) + struct.pack( '<HH', typ, count ) + data

def write_frag( tag, typ, count, offset, data, *elements ):
    return b'\x53' + symbolic( tag, *elements ) + struct.pack( '<HHI', typ, count, offset ) + data

def multiple( *requests ):
    offsets,offset		= [],2 + 2 * len( requests )
    for r in requests:
        offsets.append( offset )
        offset		       += len( r )
    return b'\x0A\x02\x20\x02\x24\x01' + struct.pack( '<H', len( requests )) \
        + b''.join( struct.pack( '<H', o ) for o in offsets ) + b''.join( requests )


class Reference( object ):
    VENDOR,SERIAL		= 0x1337, 0x00C0FFEE

    def __init__( self, register=True ):
        self.sock		= socket.create_connection( ('127.0.0.1', PORT), timeout=5 )
        self.session		= 0
        self.sequence		= 0
        if register:
            self.send( 0x65, struct.pack( '<HH', 1, 0 ))
            cmd,ses,sts,body	= self.recv()
            assert ( cmd, sts ) == ( 0x65, 0 ) and ses, "Register Session failed"
            self.session	= ses

    def send( self, cmd, payload=b'', context=b'C14defct' ):
        self.sock.sendall( struct.pack( '<HHII8sI', cmd, len( payload ), self.session, 0, context, 0 ) + payload )

    def recv( self ):
        def exactly( n ):
            buf			= b''
            while len( buf ) < n:
                got		= self.sock.recv( n - len( buf ))
                assert got, "EOF from simulator"
                buf	       += got
            return buf
        cmd,siz,ses,sts,ctx,opt	= struct.unpack( '<HHII8sI', exactly( 24 ))
        return cmd,ses,sts,exactly( siz )

    def unconnected( self, cip, wrap=False ):
        """SendRRData; w/ wrap, inside an Unconnected Send via the Connection Manager to port 1, link 0"""
        if wrap:
            cip			= b'\x52\x02\x20\x06\x24\x01' + struct.pack( '<BBH', 5, 157, len( cip )) + cip \
                                  + ( b'\x00' if len( cip ) % 2 else b'' ) + b'\x01\x00\x01\x00'
        self.send( 0x6F, struct.pack( '<IHHHHHH', 0, 5, 2, 0, 0, 0xB2, len( cip )) + cip )
        cmd,ses,sts,body	= self.recv()
        assert ( cmd, sts ) == ( 0x6F, 0 ), "SendRRData failed: status %#x" % sts
        ifc,tmo,cnt,t0,l0,t1,l1	= struct.unpack_from( '<IHHHHHH', body, 0 )
        assert ( cnt, t0, l0, t1 ) == ( 2, 0, 0, 0xB2 ) and l1 == len( body ) - 16, "bad CPF framing"
        return body[16:]

    def forward_open( self, serial=0x0101, t_o_id=0x20000001 ):
        path			= b'\x01\x00\x20\x02\x24\x01'
        cip			= b'\x54\x02\x20\x06\x24\x01' \
            + struct.pack( '<BBIIHHIB3x', 10, 14, 0, t_o_id, serial, self.VENDOR, self.SERIAL, 1 ) \
            + struct.pack( '<IHIHB', 2000000, 0x43F4, 2000000, 0x43F4, 0xA3 ) \
            + struct.pack( 'B', len( path ) // 2 ) + path
        rpy			= self.unconnected( cip )
        svc,rsv,sts,ext		= struct.unpack_from( '<BBBB', rpy, 0 )
        assert ( svc, rsv, sts, ext ) == ( 0xD4, 0, 0, 0 ), "Forward Open refused: %r" % rpy
        self.o_t,self.t_o	= struct.unpack_from( '<II', rpy, 4 )
        assert self.t_o == t_o_id, "Forward Open reply doesn't echo the T->O connection ID"
        return self.o_t

    def connected( self, cip ):
        """SendUnitData; returns (<connection ID of the reply's address item>, <sequence>, <CIP reply>)"""
        self.sequence	       += 1
        self.send( 0x70, struct.pack( '<IHHHHIHHH', 0, 0, 2, 0xA1, 4, self.o_t, 0xB1, 2 + len( cip ), self.sequence ) + cip )
        cmd,ses,sts,body	= self.recv()
        assert ( cmd, sts ) == ( 0x70, 0 ), "SendUnitData failed: status %#x" % sts
        ifc,tmo,cnt,t0,l0,cid,t1,l1,seq = struct.unpack_from( '<IHHHHIHHH', body, 0 )
        assert ( cnt, t0, l0, t1 ) == ( 2, 0xA1, 4, 0xB1 ) and l1 == len( body ) - 20, "bad CPF framing"
        return cid,seq,body[22:]


DOC = '''C14 defect 2: the Get_Attribute_List ( 0x03 ) reply lacks the attribute count.

CIP Vol.1 Appendix A / Logix5000 Data Access ( 1756-PM020, "Get_Attribute_List" - the very table quoted in
the docstring of device.Object.produce ): Reply Data begins with a UINT "number of attribute responses that
follow", then ( attribute ID, status, value ) for each.  Requested: attributes 1, 2, 3 of class 0xAC instance 1
( INT 5, INT 2, UDINT 0xC580B203 ).

Observed: 83 00 00 00 | 01 00 00 00 05 00 | ...  ( no count ).   Expected: 83 00 00 00 | 03 00 | 01 00 00 00 05 00 | ...
'''
def main():
    stop			= simulator( [ 'Speed=DINT[4]' ] )
    try:
        ref			= Reference()
        rpy			= ref.unconnected( b'\x03\x02\x20\xAC\x24\x01' + struct.pack( '<HHHH', 3, 1, 2, 3 ))
    finally:
        stop()
    print( "Get_Attribute_List reply: %s" % hexs( rpy ))
    expect			= b'\x83\x00\x00\x00' + struct.pack( '<H', 3 ) \
                                  + struct.pack( '<HHh', 1, 0, 5 ) + struct.pack( '<HHh', 2, 0, 2 ) + struct.pack( '<HHI', 3, 0, 0xC580B203 )
    print( "expected                : %s" % hexs( expect ))
    if rpy != expect:
        print( "CONTRADICTION: the reply data doesn't begin with the number of attribute responses" )
        return 1
    print( "OK" )
    return 0


if __name__ == "__main__":
    import sys
    print( DOC )
    sys.exit( main() )
