#!/usr/bin/env python
"""
C09 defect 1 (unchanged code): a gateway (UCMM with a route table) hands one session the reply to
ANOTHER session's routed request.

  T  - an ordinary cpppo simulator (sub-process) on :44819 whose tags take 1.0s to read (an
       attribute_class with a slow __getitem__, like the documented historize / weather examples);
       tags X=DINT (111) and Y=DINT (222)
  G  - an in-process cpppo simulator on :44818 whose UCMM routes port/link 1/1 --> T

  session A reads X via 1/1 with an Unconnected Send time-out of 480ms (priority 5, 15 ticks),
  session B reads Y via 1/1 (5s time-out) 200ms later; it queues up for the shared route connection.

A's request times out in G; A's thread leaves the route connection (releasing it to B) and only THEN,
in its exception handler, logs the failure, forgets the route and closes it.  B, already waiting for
the connection, gets it while it is still registered, sends its request on it -- and takes T's late
reply to A's request (X == 111) for its own.

The window between "A released the route" and "A forgot/closed the route" exists in any case; here
it is made wide by a logging.Handler on the 'enip.ucmm' logger that takes 2s to emit the "closing
route" message (a slow log sink), nothing else is touched.

Expected: B receives Y == [222] (on a fresh route connection), or at least an error -- never another
session's data.  Observed: B receives [111].
"""
from __future__ import print_function

import logging
import os
import subprocess
import sys
import threading
import time

import cpppo
from cpppo.dotdict import dotdict
from cpppo.server.enip import client, ucmm
from cpppo.server.enip.main import main as enip_main

T_ADDR				= ( '127.0.0.1', 44819 )
G_ADDR				= ( '127.0.0.1', 44818 )
ROUTE				= [ { 'port': 1, 'link': 1 } ]


SLOW_TARGET			= """
import sys, time
from cpppo.server.enip import device
from cpppo.server.enip.main import main
class Attribute_slow( device.Attribute ):
    def __getitem__( self, key ):
        time.sleep( 1.0 )
        return super( Attribute_slow, self ).__getitem__( key )
sys.exit( main( attribute_class=Attribute_slow ))
"""


class slow_sink( logging.Handler ):
    def emit( self, record ):
        if 'closing route' in record.getMessage():
            time.sleep( 2.0 )


def await_server( addr, timeout=20 ):
    import socket
    end				= time.time() + timeout
    while time.time() < end:
        try:
            socket.create_connection( addr, timeout=1 ).close()
            return
        except Exception:
            time.sleep( .1 )
    raise AssertionError( "No server at %r" % ( addr, ))


def routed_read( conn, tag, ticks, context, timeout ):
    """One routed Read Tag; returns ( <enip status>, <CIP status>, <data> )"""
    with conn:
        conn.read( tag, offset=None, route_path=ROUTE, send_path='@6/1',
                   priority_time_tick=5, timeout_ticks=ticks, sender_context=context )
        rsp,ela			= client.await_response( conn, timeout=timeout )
    if not rsp:
        return None,None,None
    if rsp.enip.status or 'enip.CIP.send_data' not in rsp:
        return rsp.enip.status,None,None
    req				= rsp.enip.CIP.send_data.CPF.item[1].unconnected_send.request
    return rsp.enip.status,req.get( 'status' ),req.get( "read_tag.data" )


def main():
    logging.basicConfig( level=logging.ERROR )
    ucmm_log			= logging.getLogger( "enip.ucmm" )
    ucmm_log.setLevel( logging.NORMAL )
    ucmm_log.propagate		= False
    ucmm_log.addHandler( slow_sink() )

    env				= dict( os.environ )
    target			= subprocess.Popen(
        [ sys.executable, '-c', SLOW_TARGET, '-a', '%s:%d' % T_ADDR, '--no-udp',
          'X=DINT', 'Y=DINT' ], env=env )
    results			= {}
    try:
        class UCMM_routing( ucmm.UCMM ):
            route		= { "1/1": "%s:%d" % T_ADDR }

        control			= dotdict( done=False )
        gateway			= threading.Thread(
            target=enip_main, args=( [ '-a', '%s:%d' % G_ADDR, '--no-udp', 'Z=DINT' ], ),
            kwargs=dict( UCMM_class=UCMM_routing, server=dotdict( control=control )))
        gateway.daemon		= True
        gateway.start()
        await_server( T_ADDR )
        await_server( G_ADDR )

        # Directly in T: X = 111, Y = 222
        with client.connector( host=T_ADDR[0], port=T_ADDR[1], timeout=10 ) as direct:
            ops			= client.parse_operations( [ "X=(DINT)111", "Y=(DINT)222" ] )
            fail,_		= direct.process( operations=ops, multiple=400, timeout=10 )
            assert not fail, "Could not initialize X, Y in the target"

        ses_A			= client.connector( host=G_ADDR[0], port=G_ADDR[1], timeout=10 )
        ses_B			= client.connector( host=G_ADDR[0], port=G_ADDR[1], timeout=10 )

        # B establishes the route, and sees its own data
        warm			= routed_read( ses_B, "Y", ticks=250, context=b'B0', timeout=15 )
        assert warm == ( 0, 0, [222] ), "Routed read of Y via the gateway failed: %r" % ( warm, )

        def run_A():
            results['A']	= routed_read( ses_A, "X", ticks=15, context=b'A1', timeout=15 )	# 32ms x 15 == 480ms
        def run_B():
            time.sleep( .2 )
            results['B']	= routed_read( ses_B, "Y", ticks=250, context=b'B1', timeout=15 )	# 32ms x 250 == 8s
        threads			= [ threading.Thread( target=run_A ), threading.Thread( target=run_B ) ]
        for t in threads:
            t.daemon		= True
            t.start()
        for t in threads:
            t.join( 30 )
        control.done		= True
    finally:
        target.terminate()
        target.wait()

    print( "session A (read X, 480ms time-out): enip status, CIP status, data == %r" % ( results.get( 'A' ), ))
    print( "session B (read Y, 8s time-out)   : enip status, CIP status, data == %r" % ( results.get( 'B' ), ))
    b				= results.get( 'B' )
    if b and b[2] is not None and b[2] != [222]:
        print( "FAILED: session B read Y (== 222) through the gateway and received %r: the target's late reply to session A's request for X (== 111)" % ( b[2], ))
        print( "        expected: [222], or an error status" )
        return 1
    print( "OK: session B did not receive another session's data" )
    return 0


if __name__ == "__main__":
    sys.exit( main() )
