#!/usr/bin/env python
"""
C10 contradiction (unchanged code): a CPF item of a type cpppo has no parser for ( eg. 0x8000 / 0x8001
"Sockaddr Info", which real devices put into Forward Open replies ) is parsed by the 'unrecognized' octets
state of enip.parser.CPF *without* the item's own .length as a limit: it swallows every byte up to the end
of the enclosing CIP payload, and the CPF parser completes successfully having consumed more than the
item's length field allows.

  a) count=1, item type 0x8000 length 2, data 'ab', followed by 3 more bytes inside the frame:
     expected  -- the item takes at most 2 bytes ( .input == b'ab' ) and leaves the rest, or the parse fails
     observed  -- parse succeeds, .input == b'abXYZ' ( 5 symbols for a length field of 2 )
  b) count=2, item[0] type 0x8000 length 2 'ab', item[1] a well formed 0x00b2 Unconnected item:
     expected  -- both items parsed, item[0].input == b'ab'
     observed  -- item[0] swallows item[1]; the parse of the ( well formed ) message fails

exit 1 when the contradiction is present, 0 otherwise.
"""
from __future__ import print_function
import contextlib
import sys

import cpppo
from cpppo.server.enip import parser


def parse_cip( command, payload ):
    """Parse an EtherNet/IP frame's payload the way client.py / logix.process do."""
    data			= cpppo.dotdict()
    data.enip			= cpppo.dotdict( command=command, length=len( payload ),
                                                 session_handle=0, status=0, options=0 )
    data.enip.input		= bytearray( payload )
    source			= cpppo.peekable( data.enip.input )
    machine			= parser.CIP( terminal=True )
    try:
        with machine:
            with contextlib.closing( machine.run( path='enip', source=source, data=data )) as engine:
                for m,s in engine:
                    pass
            return machine.terminal, source.sent, data, None
    except Exception as exc:
        return False, source.sent, data, exc


bad				= []

send_data			= b'\x00\x00\x00\x00' b'\x05\x00'	# interface, timeout

# a) one unrecognized item, length 2, followed by 3 bytes that do not belong to it
payload				= send_data + b'\x01\x00' + b'\x00\x80\x02\x00' + b'ab' + b'XYZ'
allowed				= len( payload ) - 3
ok,sent,data,exc		= parse_cip( 0x006f, payload )
if ok:
    item			= data.enip.CIP.send_data.CPF.item[0]
    taken			= bytes( bytearray( item.input ))
    print( "a) parse succeeded: item.length == %d, item.input == %r, %d symbols consumed ( <= %d allowed )" % (
        item.length, taken, sent, allowed ))
    if len( taken ) > item.length or sent > allowed:
        bad.append( "a) unrecognized CPF item with length %d consumed %d symbols: %r" % (
            item.length, len( taken ), taken ))
else:
    print( "a) parse failed ( acceptable ): %r" % ( exc, ))

# b) the same unrecognized item, followed by a well-formed Unconnected Data item
gaa				= b'\x01\x02\x20\x01\x24\x01'		# Get Attributes All, @1/1
payload				= ( send_data + b'\x02\x00'
                                    + b'\x00\x80\x02\x00' + b'ab'
                                    + b'\xb2\x00\x06\x00' + gaa )
ok,sent,data,exc		= parse_cip( 0x006f, payload )
if ok and len( data.enip.CIP.send_data.CPF.get( 'item', [] )) == 2:
    i0,i1			= data.enip.CIP.send_data.CPF.item
    print( "b) parsed 2 items; item[0].input == %r, item[1] has unconnected_send: %r" % (
        bytes( bytearray( i0.input )), 'unconnected_send' in i1 ))
    if bytes( bytearray( i0.input )) != b'ab' or 'unconnected_send' not in i1:
        bad.append( "b) items mis-parsed: %r" % ( data.enip.CIP.send_data.CPF, ))
else:
    swallowed			= data.get( 'enip.CIP.send_data.CPF.item__.input' )
    if swallowed is None and data.get( 'enip.CIP.send_data.CPF.item' ):
        swallowed		= data.enip.CIP.send_data.CPF.item[0].get( 'input' )
    print( "b) parse of a well-formed 2-item CPF failed: %r; partial item .input == %r" % (
        exc, bytes( bytearray( swallowed )) if swallowed is not None else None ))
    bad.append( "b) well-formed CPF ( unrecognized item of length 2, then an 0x00b2 item ) not parsed; "
                "first item swallowed %r" % ( bytes( bytearray( swallowed )) if swallowed is not None else None, ))

if bad:
    print( "CONTRADICTION of C10 ( observed vs. expected: an item consumes at most its .length ):" )
    for b in bad:
        print( "  " + b )
    sys.exit( 1 )
print( "OK: unrecognized CPF items are bounded by their length field" )
sys.exit( 0 )
