#!/usr/bin/env python
"""
Adjacent to C10 ( extent fields parsed earlier in the message bound the nested member parsers ) -- unchanged code:

A Multiple Service Packet carries .number and an .offsets[] table ( measured from the .number field ); each
member request occupies [ offsets[i], offsets[i+1] ) -- the last one up to the end.  device.state_multiple_service
converts an offset to an index into .request_data by subtracting the size of number + table, and slices:

    beg = offsets[oi] - ( 2 + 2 * len( offsets ))
    req.input = reqdata[beg:end]

An offset smaller than the table ( 0, 2, ... -- it designates the number/offsets fields, not request data ) gives a
NEGATIVE beg, and Python's slice silently counts it from the END of the data: the member parser is fed ( and
successfully consumes ) the last |beg| octets of the packet -- octets the offset field does not designate.

  input     number=1, offsets=[2], data = Read Tag request '4c 02 20 02 24 01 01 00'
  observed  member 0 is parsed from the last 2 octets b'\\x01\\x00' as a complete "Get Attributes All, path size 0" request
  expected  member 0 is refused ( kept with nothing recognized / answered with an error ), or the whole packet fails;
            in no case may a nested parser be given octets outside the extent its offset designates.

exit 1 when present, 0 otherwise.
"""
from __future__ import print_function
import contextlib
import struct
import sys

import cpppo
from cpppo.server.enip import device, logix

device.dialect			= logix.Logix

read_tag			= b'\x4c\x02\x20\x02\x24\x01\x01\x00'	# Read Tag @2/1, 1 element
header				= b'\x0a\x02\x20\x02\x24\x01'		# Multiple Service Packet @2/1

bad				= []
for offset in ( 0, 2 ):
    request			= header + struct.pack( '<HH', 1, offset ) + read_tag
    source			= cpppo.peekable( request )
    data			= cpppo.dotdict()
    try:
        with logix.Logix.parser as machine:
            with contextlib.closing( machine.run( source=source, data=data )) as engine:
                for m,s in engine:
                    pass
            terminal		= machine.terminal
    except Exception as exc:
        print( "offset %d: packet refused ( acceptable ): %r" % ( offset, exc ))
        continue
    member			= data.multiple.request[0]
    fed				= bytes( bytearray( member.input ))
    recognized			= sorted( k for k in member.keys() if k not in ( 'input', 'service' ))
    print( "offset %d: packet terminal %s; member 0 was fed %r, recognized %r" % (
        offset, terminal, fed, dict( (k,member[k]) for k in member.keys() if k != 'input' )))
    # The offset designates octets before the request data; whatever is done with the member, it must not have
    # been parsed out of the tail of the data.
    if fed and read_tag.endswith( fed ) and fed != read_tag and recognized:
        bad.append( "offset %d ( inside the number/offsets table ): member parsed from the LAST %d octets %r of the data as %r" % (
            offset, len( fed ), fed, dict( (k,member[k]) for k in member.keys() if k != 'input' )))

if bad:
    print( "CONTRADICTION ( observed vs. expected: a member is only ever given the octets its offset designates ):" )
    for b in bad:
        print( "  " + b )
    sys.exit( 1 )
print( "OK" )
sys.exit( 0 )
