"""C17 defect 2: at precision 0 a rendering that ends in a negative numeric zone designation is
parsed, without any error, as a UTC time with that number as its fraction -- a different instant.

Many zones have a numeric abbreviation ( America/Sao_Paulo '-03', America/Caracas '-04', Etc/GMT+5
'-05', ... ) and render( ..., tzdetail=False ) appends the numeric offset '-0300'.  With ms=False
( as the timestamp.local property renders ) the text is eg. '2018-07-01 07:00:00 -03'.
datetime_from_string translates the '-' to a blank before looking for the zone token, finds 7 purely
numeric terms, and takes '03' as the sub-second fraction of a UTC time: 07:00:00.030 UTC, three hours
( and 30ms ) away from the instant that was rendered.  ( With a fraction present there are 8 terms and
the text is refused, which is at least safe. )

Expected: the same instant back, or a refusal; never a different instant.
"""
from __future__ import print_function
import sys
import warnings
warnings.simplefilter( 'ignore' )

from cpppo.history import timestamp

instant			= 1530439200.0			# 2018-07-01 10:00:00 UTC
wrong			= []
for zone in ( 'America/Sao_Paulo', 'America/Caracas', 'America/Bogota', 'Etc/GMT+5', 'America/Edmonton' ):
    for tzdetail in ( None, False ):
        text		= timestamp( instant ).render( zone, ms=False, tzdetail=tzdetail )
        try:
            back	= timestamp( text )
        except ValueError:
            continue					# refused: acceptable
        if abs( back.value - instant ) >= 1.0:		# precision 0: allow the truncated second
            wrong.append( ( zone, tzdetail, text, back ))

for zone,tzdetail,text,back in wrong:
    print( "%-18s tzdetail=%-5s rendered %r -> observed %r; expected %r or ValueError" % (
        zone, tzdetail, text, back, timestamp( instant )))
sys.exit( 1 if wrong else 0 )
