"""C17 defect 5: a negative duration is formatted as a text that neither denotes it nor parses.

duration._format decomposes days*86400 + seconds with floor division, so for a negative timedelta the
year count is -1 and everything below it is the positive complement: str( duration( -5 )) is
'-1y52w1d5h59m55s' ( to be read as -1 year + 52 weeks + ... ), and DURSPEC_RE accepts no sign, so
duration( str( duration( -5 ))) raises RuntimeError.  parse_seconds( str( duration( -0.000001 )))
likewise.  Expected: the text parses back to exactly the same duration ( eg. '-5s' ), or negative
durations are refused when constructed.
"""
from __future__ import print_function
import datetime
import sys
import warnings
warnings.simplefilter( 'ignore' )

from cpppo.history.times import duration, parse_seconds

problems		= []
for td in ( datetime.timedelta( seconds=-5 ), datetime.timedelta( microseconds=-1 ),
            datetime.timedelta( days=-400, seconds=7 ), datetime.timedelta( seconds=-90, microseconds=250000 )):
    try:
        text		= str( duration( td ))
    except Exception as exc:
        continue					# refused on construction / formatting: acceptable
    try:
        back		= duration( text ).timedelta
    except Exception as exc:
        back		= "%s: %s" % ( type( exc ).__name__, exc )
    if back != td:
        problems.append( "%r formatted as %r -> observed %s; expected %r" % ( td, text, back, td ))

for p in problems:
    print( p )
sys.exit( 1 if problems else 0 )
