"""C17 defect 3: the default rendering designates the zone by its abbreviation, and the parser reads
an abbreviation that is not in the abbreviation table as a zone KEY; 'CET', 'EET', 'WET' ( also 'MET',
'EST', 'MST', 'HST' ) are keys of the time-zone database whose rules differ from those of the zone
that produced the abbreviation.

Africa/Algiers and Africa/Tunis keep CET ( +01:00 ) all year, Africa/Tripoli and Europe/Kaliningrad
keep EET ( +02:00 ) all year.  2018-07-01 10:00:00 UTC renders in Africa/Algiers as
'2018-07-01 11:00:00.000 CET'; parsing that text looks up the zone 'CET', in which July is summer
time ( +02:00 ), and silently returns 09:00:00 UTC -- one hour away.

Expected: the same instant back, or a refusal; never a different instant.
"""
from __future__ import print_function
import sys
import warnings
warnings.simplefilter( 'ignore' )

from cpppo.history import timestamp

instant			= 1530439200.0			# 2018-07-01 10:00:00 UTC
wrong			= []
for zone in ( 'Africa/Algiers', 'Africa/Tunis', 'Africa/Tripoli', 'Europe/Kaliningrad', 'Africa/Cairo' ):
    for ms in ( True, 6, False ):
        text		= timestamp( instant ).render( zone, ms=ms )
        try:
            back	= timestamp( text )
        except ValueError:
            continue					# refused: acceptable
        if abs( back.value - instant ) > 0.0005:
            wrong.append( ( zone, text, back ))

for zone,text,back in wrong:
    print( "%-18s rendered %r -> observed %r; expected %r or ValueError" % (
        zone, text, back, timestamp( instant )))
sys.exit( 1 if wrong else 0 )
