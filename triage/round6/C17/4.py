"""C17 defect 4: with zoneinfo + tzlocal ( no pytz classic, no TZ variable ) the host's local zone
timestamp.LOC is a bare zoneinfo.ZoneInfo, not the pytz-compatible wrapper every other zone is
( pytz.timezone( name ) ).  datetime_from_string calls tzinfo.localize(...), which ZoneInfo does not
have, so every text WITHOUT an explicit zone that is to be read as local time is refused:
timestamp.local = '2014-05-10 12:52:47' ( and datetime_from_string( text, tzinfo=timestamp.LOC ))
raise ValueError, and render( timestamp.LOC, tzdetail=True ) raises AttributeError ( no .zone ).

The getter works ( ts.local -> '2014-05-10 12:52:47 UTC' ), so only the round trip through the local
zone is broken.  Expected: a wall-clock time rendered in the local zone parses back to the instant.
"""
from __future__ import print_function
import sys
import warnings
warnings.simplefilter( 'ignore' )

from cpppo.history import timestamp

instant			= 1399726367.0			# 2014-05-10 12:52:47 UTC, not near a transition anywhere
problems		= []
ts			= timestamp( instant )
wall			= ts.render( timestamp.LOC, ms=False, tzdetail=None ).rsplit( ' ', 1 )[0] \
                              if timestamp.LOC is not timestamp.UTC else ts.render( ms=False )
print( "local zone %r ( %s ); local wall-clock text %r" % ( timestamp.LOC, type( timestamp.LOC ).__name__, wall ))

other			= timestamp( 0 )
try:
    other.local		= wall				# bare local time, no zone in the text
    if abs( other.value - instant ) > 0.0005:
        problems.append( "timestamp.local = %r gave %r; expected %r" % ( wall, other, ts ))
except Exception as exc:
    problems.append( "timestamp.local = %r raised %s: %s; expected %r" % (
        wall, type( exc ).__name__, exc.args[-1], ts ))

try:
    dt			= timestamp.datetime_from_string( wall, tzinfo=timestamp.LOC )
    if abs( timestamp.number_from_datetime( dt ) - instant ) > 0.0005:
        problems.append( "datetime_from_string( %r, tzinfo=LOC ) gave %r" % ( wall, dt ))
except Exception as exc:
    problems.append( "datetime_from_string( %r, tzinfo=LOC ) raised %s: %s" % (
        wall, type( exc ).__name__, exc.args[-1] ))

try:
    ts.render( timestamp.LOC, tzdetail=True )
except Exception as exc:
    problems.append( "render( LOC, tzdetail=True ) raised %s: %s" % ( type( exc ).__name__, exc ))

for p in problems:
    print( "observed: " + p )
sys.exit( 1 if problems else 0 )
