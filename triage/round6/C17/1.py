"""C17 defect 1: zones whose name contains '-' cannot be parsed back at all.

timestamp.render( zone, tzdetail=True ) appends the full zone name; timestamp.datetime_from_string
translates ':', '-' and '.' to blanks in the WHOLE text before it splits off the zone token, so
'America/Port-au-Prince' becomes the three terms 'America/Port', 'au', 'Prince' and 'Etc/GMT-5'
becomes 'Etc/GMT', '5'.  Every instant rendered in such a zone is refused ( ValueError ), although
the wall-clock time is neither ambiguous nor nonexistent.

Expected: parse( render( t, zone, tzdetail=True )) == t for every zone of the database.
"""
from __future__ import print_function
import sys
import warnings
warnings.simplefilter( 'ignore' )
import zoneinfo

from cpppo.history import timestamp

instant			= 1399726367.123		# 2014-05-10 12:52:47.123 UTC, no transition near in any of these
zones			= sorted( z for z in zoneinfo.available_timezones() if '-' in z )
failed			= []
for zone in zones:
    text		= timestamp( instant ).render( zone, tzdetail=True )
    try:
        back		= timestamp( text ).value
    except ValueError as exc:
        failed.append( ( zone, text, "ValueError: %s" % ( exc.args[-1], )))
        continue
    if abs( back - instant ) > 0.0005:
        failed.append( ( zone, text, "parsed as %.3f" % back ))

print( "%d zones with a '-' in their name, %d do not survive render/parse of %.3f" % (
    len( zones ), len( failed ), instant ))
for zone,text,what in failed[:8]:
    print( "  %-24s rendered %r -> observed %s; expected %.3f" % ( zone, text, what, instant ))
sys.exit( 1 if failed else 0 )
