"""C17 defect 6: for instants before the year 1000 the order of the renderings contradicts the
comparison.

timestamp.render uses strftime( '%Y-...' ), which ( glibc ) does not zero-pad the year: the instant one
second before 1000-01-01 renders as '999-12-31 23:59:59.000'.  The class promises "Comparisons.  Always
equivalent to lexicographically, in UTC to 3 decimal places", but '999-12-31 23:59:59.000' sorts AFTER
'1000-01-01 00:00:01.000' while the timestamps compare the other way round.  ( The texts do parse back
to the right instants. )  Expected: a fixed-width, zero-padded year ( '0999-12-31 ...' ) so that the
string order and the timestamp order agree for all renderable instants.
"""
from __future__ import print_function
import sys
import warnings
warnings.simplefilter( 'ignore' )

from cpppo.history import timestamp

y1000			= -30610224000.0		# 1000-01-01 00:00:00 UTC
earlier			= timestamp( y1000 - 1 )
later			= timestamp( y1000 + 1 )
print( "earlier %r, later %r" % ( earlier, later ))
assert earlier < later and not ( earlier >= later )
assert timestamp( str( earlier )).value == earlier.value and timestamp( str( later )).value == later.value
if not ( str( earlier ) < str( later )):
    print( "observed: timestamps compare earlier < later, but renderings compare %r > %r; expected the same order" % (
        str( earlier ), str( later )))
    sys.exit( 1 )
sys.exit( 0 )
