#!/usr/bin/env python
"""
C09 / unchanged code: the session table of the UCMM does not keep the session handles of simultaneous
sessions distinct.

UCMM.request ( ucmm.py, Register Session ) draws a random 32-bit handle under UCMM.lock and redraws it

        while not session or session in self.__class__.sessions:

but `sessions` is keyed by the peer ADDRESS ( sessions[addr] = session ), so the `in` test looks for the
handle among the addresses and never finds it: a handle that is already in use by a live session is
handed out again.  ( The test was meant to be against the handles: sessions.values(). )

A collision of two honest draws is a 1 : 2**32 event, so this program makes the simulator's generator
repeat itself: it seeds the ( process-wide ) `random` module with the same value just before each of
two Register Session requests, issued on two TCP connections that both stay open.

Expected: two live sessions never carry the same session handle ( the second draw is redrawn ).
Observed: both Register Session replies carry the same handle.

Exit 1 if the two live sessions were given the same handle, 0 otherwise.
"""
from __future__ import print_function

import random
import socket
import struct
import sys
import threading
import time

from cpppo.dotdict import apidict
from cpppo.server.enip.main import main as enip_main

PORT				= 44823

def register( sock ):
    sock.sendall( struct.pack( '<HHII8sI', 0x65, 4, 0, 0, b'\0' * 8, 0 ) + struct.pack( '<HH', 1, 0 ))
    buf				= b''
    while len( buf ) < 28:
        d			= sock.recv( 4096 )
        assert d, "simulator closed the connection"
        buf		       += d
    cmd,ln,ses,sts,ctx,opt	= struct.unpack( '<HHII8sI', buf[:24] )
    assert cmd == 0x65 and sts == 0, "Register Session failed: %r" % ( (cmd,sts), )
    return ses

def main():
    control			= apidict( 2.0, { 'done': False } )
    server			= threading.Thread( target=enip_main, kwargs=dict(
        argv	= [ '--no-udp', '--address', '127.0.0.1:%d' % PORT, 'Tag=DINT' ],
        server	= { 'control': control } ))
    server.daemon		= True
    server.start()
    for _ in range( 400 ):
        try:
            socket.create_connection( ('127.0.0.1', PORT), timeout=1 ).close()
            break
        except Exception:
            time.sleep( .05 )
    time.sleep( .5 )		# let the probe connection above be torn down

    one				= socket.create_connection( ('127.0.0.1', PORT), timeout=10 )
    two				= socket.create_connection( ('127.0.0.1', PORT), timeout=10 )
    time.sleep( .5 )		# both connections accepted, both service threads idle
    random.seed( 4711 )
    handle_one			= register( one )
    random.seed( 4711 )		# the simulator's next draw repeats the previous one
    handle_two			= register( two )
    random.seed()
    print( "session 1 ( %r ): handle 0x%08x" % ( one.getsockname(), handle_one ))
    print( "session 2 ( %r ): handle 0x%08x" % ( two.getsockname(), handle_two ))
    control['done']		= True
    if handle_one == handle_two:
        print( "OBSERVED: two sessions that are alive at the same time were given the same session handle" )
        print( "EXPECTED: a handle in use by a live session is never handed out again ( the draw is repeated )" )
        return 1
    print( "OK: the handles differ" )
    return 0

if __name__ == "__main__":
    sys.exit( main() )
