#!/usr/bin/env python
"""
C09 / unchanged code: on a routing simulator ( UCMM with a Route table ) a session whose request merely
WAITS for the shared route connection is failed -- and its whole session terminated -- because the
request of ANOTHER session that was using the route at that moment timed out.

Set-up ( all on localhost, one process ):

  T   a minimal EtherNet/IP target: answers Register Session and every SendRRData at once with a Read
      Tag reply ( DINT 42 ) -- except requests for the tag "Slow", which it never answers.
  G   the cpppo simulator ( cpppo.server.enip.main ) with  UCMM.route = { "1/1": T }.
  A   session 1 on G: Unconnected Send, route path 1/1, Read Tag "Slow", time-out 0.8 s ( priority 3 x 100 ticks ).
  B   session 2 on G, 0.2 s later: Unconnected Send, route path 1/1, Read Tag "Fast", same time-out.

Expected: A's request fails after its 0.8 s ( the target does not answer it ).  B's request is
independent of A's: it is forwarded to T ( which answers it immediately ) and B receives DINT 42 in an
EtherNet/IP reply with status 0; at the very least B's session survives.

Observed ( UCMM.request, ucmm.py "with self.route_conn[target] as conn" / "failed.close()" ): B blocks on
the lock of the one shared route connection while A waits for its answer; when A times out, A's handler
closes that connection; B then obtains the lock of the closed connection, fails without its request
ever being sent to T, is answered with EtherNet/IP status 0x65 and no payload, and G drops B's session.

Exit 1 if B was failed by A's time-out, 0 if B was served.
"""
from __future__ import print_function

import socket
import struct
import sys
import threading
import time

from cpppo.dotdict import dotdict, apidict
from cpppo.server.enip import parser, device, logix, ucmm
from cpppo.server.enip.main import main as enip_main

GPORT, TPORT			= 44821, 44822
seen_by_target			= []


def target():
    """The minimal target T."""
    lsn				= socket.socket()
    lsn.setsockopt( socket.SOL_SOCKET, socket.SO_REUSEADDR, 1 )
    lsn.bind( ('127.0.0.1', TPORT) )
    lsn.listen( 5 )

    def serve( conn ):
        buf			= [ b'' ]
        def rx( n ):
            while len( buf[0] ) < n:
                d		= conn.recv( 4096 )
                if not d:
                    raise EOFError()
                buf[0]	       += d
            r,buf[0]		= buf[0][:n],buf[0][n:]
            return r
        try:
            while True:
                cmd,ln,ses,sts,ctx,opt = struct.unpack( '<HHII8sI', rx( 24 ))
                body		= rx( ln )
                if cmd == 0x65:		# Register Session
                    conn.sendall( struct.pack( '<HHII8sI', cmd, ln, 0x1234, 0, ctx, opt ) + body )
                elif cmd == 0x6f:	# SendRRData
                    seen_by_target.append( ctx )
                    if b'Slow' in body:
                        continue	# never answered
                    rpy		= b'\xcc\x00\x00\x00\xc4\x00' + struct.pack( '<i', 42 )
                    pay		= struct.pack( '<IHHHHHH', 0, 0, 2, 0, 0, 0xb2, len( rpy )) + rpy
                    conn.sendall( struct.pack( '<HHII8sI', cmd, len( pay ), ses, 0, ctx, opt ) + pay )
        except ( EOFError, socket.error ):
            pass

    while True:
        conn,_			= lsn.accept()
        t			= threading.Thread( target=serve, args=(conn,) )
        t.daemon		= True
        t.start()


def routed_read( tag, session, context ):
    """EtherNet/IP SendRRData: Unconnected Send via route path 1/1 of Read Tag <tag>, time-out 8ms x 100"""
    req				= dotdict()
    req.path			= { 'segment': [ dotdict( s ) for s in device.parse_path( tag ) ] }
    req.read_tag		= { 'elements': 1 }
    cip				= dotdict()
    cip.send_data		= {}
    sd				= cip.send_data
    sd.interface		= 0
    sd.timeout			= 8
    sd.CPF			= {}
    sd.CPF.item			= [ dotdict(), dotdict() ]
    sd.CPF.item[0].type_id	= 0
    sd.CPF.item[1].type_id	= 0xb2
    sd.CPF.item[1].unconnected_send = {}
    us				= sd.CPF.item[1].unconnected_send
    us.service			= 0x52
    us.status			= 0
    us.priority			= 3
    us.timeout_ticks		= 100
    us.path			= { 'segment': [ dotdict( {'class': 6} ), dotdict( {'instance': 1} ) ] }
    us.route_path		= { 'segment': [ dotdict( {'port': 1, 'link': 1} ) ] }
    us.request			= {}
    us.request.input		= bytearray( logix.Logix.produce( req ))
    data			= dotdict()
    data.enip			= {}
    data.enip.session_handle	= session
    data.enip.options		= 0
    data.enip.status		= 0
    data.enip.sender_context	= {}
    data.enip.sender_context.input = bytearray( context )
    data.enip.CIP		= cip
    data.enip.input		= bytearray( parser.CIP.produce( data.enip ))
    return bytes( parser.enip_encode( data.enip ))


result				= {}

def session( name, tag, delay ):
    time.sleep( delay )
    sock			= socket.create_connection( ('127.0.0.1', GPORT), timeout=15 )
    buf				= [ b'' ]
    def rx( n ):
        while len( buf[0] ) < n:
            d			= sock.recv( 4096 )
            if not d:
                raise EOFError( "gateway closed the connection" )
            buf[0]	       += d
        r,buf[0]		= buf[0][:n],buf[0][n:]
        return r
    try:
        sock.sendall( struct.pack( '<HHII8sI', 0x65, 4, 0, 0, b'\0' * 8, 0 ) + struct.pack( '<HH', 1, 0 ))
        cmd,ln,ses,sts,ctx,opt	= struct.unpack( '<HHII8sI', rx( 24 ))
        rx( ln )
        beg			= time.time()
        sock.sendall( routed_read( tag, ses, name.encode().ljust( 8 )))
        cmd,ln,ses,sts,ctx,opt	= struct.unpack( '<HHII8sI', rx( 24 ))
        body			= rx( ln )
        value			= struct.unpack( '<i', body[-4:] )[0] if sts == 0 and len( body ) >= 4 else None
        result[name]		= dict( status=sts, value=value, after=round( time.time() - beg, 2 ))
        # is the session still alive?  ( List Services is answered on a live session )
        try:
            sock.sendall( struct.pack( '<HHII8sI', 0x04, 0, ses, 0, b'alive?  ', 0 ))
            rx( 24 )
            result[name]['session']= "alive"
        except Exception:
            result[name]['session']= "terminated by the gateway"
    except Exception as exc:
        result[name]		= dict( status=None, value=None, error=repr( exc ), session="terminated by the gateway" )


def main():
    t				= threading.Thread( target=target )
    t.daemon			= True
    t.start()

    class UCMM_routing( ucmm.UCMM ):
        route			= { "1/1": "127.0.0.1:%d" % TPORT }

    control			= apidict( 2.0, { 'done': False } )
    gateway			= threading.Thread( target=enip_main, kwargs=dict(
        argv	= [ '--no-udp', '--address', '127.0.0.1:%d' % GPORT, 'Local=DINT' ],
        server	= { 'control': control },
        UCMM_class = UCMM_routing ))
    gateway.daemon		= True
    gateway.start()
    for _ in range( 400 ):
        try:
            socket.create_connection( ('127.0.0.1', GPORT), timeout=1 ).close()
            break
        except Exception:
            time.sleep( .05 )

    threads			= [ threading.Thread( target=session, args=a )
                                    for a in ( ('A', 'Slow', 0.0), ('B', 'Fast', 0.2) ) ]
    for t in threads:
        t.start()
    for t in threads:
        t.join( 30 )
    control['done']		= True

    b_forwarded			= any( c.startswith( b'B' ) for c in seen_by_target )
    print( "session A ( request the target never answers ): %r" % ( result.get( 'A' ), ))
    print( "session B ( request the target answers at once ): %r" % ( result.get( 'B' ), ))
    print( "requests that reached the target: %r" % ( seen_by_target, ))
    b				= result.get( 'B' ) or {}
    if b.get( 'status' ) == 0 and b.get( 'value' ) == 42:
        print( "OK: B was served although A's request timed out on the same route" )
        return 0
    print( "OBSERVED: B's request was %s; B got EtherNet/IP status %r, value %r, and its session is %s" % (
        "forwarded" if b_forwarded else "never forwarded to the target", b.get( 'status' ), b.get( 'value' ), b.get( 'session' )))
    print( "EXPECTED: B's request is independent of A's: forwarded to the target and answered with status 0, DINT 42" )
    return 1

if __name__ == "__main__":
    sys.exit( main() )
