#!/usr/bin/env python
"""
C09 / unchanged code: the end of one session terminates ANOTHER, healthy session when both come from the
same peer address ( IP, source port ).

enip_srv_tcp ( server/enip/main.py ) keeps the per-connection state `stats` ( with the `eof` flag that ends
its service loop ) in the module-level table `connections`, keyed by the peer address only, and
stats_for() hands an EXISTING entry to a new connection.  A client that aborts its connection ( RST ) while
the simulator is still busy with its last request, and reconnects at once from the same source port (
fixed-source-port clients do exactly this after a reset ), gets the dying session's `stats`: when the old
service thread finally notices that its peer is gone it sets  stats['eof'] = True  -- on the object the
new session's thread is looping on -- and the new, healthy session is shut down by the simulator; its
next request is never answered.

Steps:
  1. session 1 from 127.0.0.1:50123: Register, then a large ( 300 member ) Multiple Service Packet; the
     client resets the connection 20 ms later, while the simulator is still working on it.
  2. session 2 from 127.0.0.1:50123, immediately: Register Session ( answered ).
  3. one second later session 2 sends a plain Read Tag.

Expected: session 2 is a session of its own; the Read Tag is answered ( status 0 ).
Observed: the simulator has closed session 2 ( EOF / reset instead of a reply ).

Exit 1 if session 2's request was not answered, 0 if it was.
"""
from __future__ import print_function

import socket
import struct
import sys
import threading
import time

from cpppo.dotdict import dotdict, apidict
from cpppo.server.enip import parser, device, logix
from cpppo.server.enip.main import main as enip_main

PORT				= 44824
SOURCE				= ('127.0.0.1', 50123)


def req_read( tag, elm, cnt ):
    r				= dotdict()
    r.path			= { 'segment': [ dotdict( s ) for s in device.parse_path( tag, elm=elm ) ] }
    r.read_tag			= { 'elements': cnt }
    return r

def req_multiple( reqs ):
    r				= dotdict()
    r.path			= { 'segment': [ dotdict( {'class': 2} ), dotdict( {'instance': 1} ) ] }
    r.multiple			= { 'request': reqs }
    return r

def frame( request, session, context ):
    cip				= dotdict()
    cip.send_data		= {}
    sd				= cip.send_data
    sd.interface		= 0
    sd.timeout			= 8
    sd.CPF			= {}
    sd.CPF.item			= [ dotdict(), dotdict() ]
    sd.CPF.item[0].type_id	= 0
    sd.CPF.item[1].type_id	= 0xb2
    sd.CPF.item[1].unconnected_send = {}
    us				= sd.CPF.item[1].unconnected_send
    us.service			= 0x52
    us.status			= 0
    us.priority			= 5
    us.timeout_ticks		= 157
    us.path			= { 'segment': [ dotdict( {'class': 6} ), dotdict( {'instance': 1} ) ] }
    us.route_path		= { 'segment': [ dotdict( {'port': 1, 'link': 0} ) ] }
    us.request			= {}
    us.request.input		= bytearray( logix.Logix.produce( request ))
    data			= dotdict()
    data.enip			= {}
    data.enip.session_handle	= session
    data.enip.options		= 0
    data.enip.status		= 0
    data.enip.sender_context	= {}
    data.enip.sender_context.input = bytearray( context )
    data.enip.CIP		= cip
    data.enip.input		= bytearray( parser.CIP.produce( data.enip ))
    return bytes( parser.enip_encode( data.enip ))


def connect():
    s				= socket.socket()
    s.setsockopt( socket.SOL_SOCKET, socket.SO_REUSEADDR, 1 )
    s.setsockopt( socket.SOL_SOCKET, socket.SO_LINGER, struct.pack( 'ii', 1, 0 )) # close() ==> RST
    s.bind( SOURCE )
    s.settimeout( 10 )
    s.connect( ('127.0.0.1', PORT) )
    return s

def rx_frame( s ):
    d				= b''
    need			= 24
    while len( d ) < need:
        x			= s.recv( 4096 )
        if not x:
            return None		# EOF from the simulator
        d		       += x
        if len( d ) >= 24:
            need		= 24 + struct.unpack( '<H', d[2:4] )[0]
    cmd,ln,ses,sts,ctx,opt	= struct.unpack( '<HHII8sI', d[:24] )
    return dict( command=cmd, session=ses, status=sts, context=ctx, payload=d[24:] )

def register( s ):
    s.sendall( struct.pack( '<HHII8sI', 0x65, 4, 0, 0, b'\0' * 8, 0 ) + struct.pack( '<HH', 1, 0 ))
    rpy				= rx_frame( s )
    assert rpy and rpy['command'] == 0x65 and rpy['status'] == 0, "Register Session failed: %r" % ( rpy, )
    return rpy['session']


def main():
    control			= apidict( 2.0, { 'done': False } )
    server			= threading.Thread( target=enip_main, kwargs=dict(
        argv	= [ '--no-udp', '--address', '127.0.0.1:%d' % PORT, 'A=DINT[100]' ],
        server	= { 'control': control } ))
    server.daemon		= True
    server.start()
    for _ in range( 400 ):
        try:
            socket.create_connection( ('127.0.0.1', PORT), timeout=1 ).close()
            break
        except Exception:
            time.sleep( .05 )
    time.sleep( .5 )

    # 1. session 1: a request that keeps the simulator busy for a while; then the client resets
    one				= connect()
    handle			= register( one )
    one.sendall( frame( req_multiple( [ req_read( 'A', 0, 1 ) ] * 300 ), handle, b'session1' ))
    time.sleep( .02 )
    one.close()			# RST

    # 2. session 2, at once, from the same source port
    two				= connect()
    handle			= register( two )
    print( "session 2 from %r registered, handle 0x%08x" % ( two.getsockname(), handle ))

    # 3. a little later, its first request
    time.sleep( 1.0 )
    answer			= None
    try:
        two.sendall( frame( req_read( 'A', 0, 1 ), handle, b'session2' ))
        answer			= rx_frame( two )
    except socket.error as exc:
        print( "session 2: %r" % ( exc, ))
    control['done']		= True

    if answer and answer['status'] == 0 and answer['context'] == b'session2':
        print( "OK: session 2's Read Tag was answered" )
        return 0
    print( "OBSERVED: session 2's Read Tag got %s: the simulator ended session 2 when session 1 ( same peer address ) ended" % (
        "no reply ( connection closed by the simulator )" if answer is None else repr( answer )))
    print( "EXPECTED: session 2 is independent of session 1; its Read Tag is answered with status 0" )
    return 1

if __name__ == "__main__":
    sys.exit( main() )
