"""C06 contradiction 1 (unchanged code): an unsupported encapsulation command is not answered at all.

Property: "an unsupported or unroutable request is answered by one frame with a non-zero encapsulation status".
A complete, well-formed EtherNet/IP frame whose command the simulator does not implement (0x0072 IndicateStatus,
0x0073 Cancel, any unassigned code, with or without payload) is answered by ZERO frames: parser.CIP finds no
sub-parser, logix.process lets the NonTerminal escape before any response exists, and enip_srv_tcp just drops the
connection.  (An unsupported CIP *service* inside SendRRData, by contrast, does get its status-0x08 frame.)
"""
import logging, socket, struct, sys, threading, time

from cpppo.dotdict import dotdict, apidict
from cpppo.server.enip import main as enip_main

PORT				= 44818

def start_server():
    ctl				= dotdict()
    ctl.control			= apidict( timeout=1.0 )
    ctl.control['done']		= False
    ctl.control['disable']	= False
    ctl.control['latency']	= 0.05
    argv			= [ '--no-print', '-a', 'localhost:%d' % PORT, 'SCADA=INT[100]' ]
    thr				= threading.Thread( target=enip_main.main, kwargs=dict( argv=argv, server=ctl ))
    thr.daemon			= True
    thr.start()
    for _ in range( 200 ):
        try:
            socket.create_connection( ('127.0.0.1', PORT), timeout=.5 ).close()
            return ctl,thr
        except Exception:
            time.sleep( .05 )
    raise RuntimeError( "simulator did not start" )

def enip_frame( command, payload=b'', session=0, context=b'\0'*8 ):
    return struct.pack( '<HHII', command, len( payload ), session, 0 ) + context + struct.pack( '<I', 0 ) + payload

def recv_all( s, timeout=1.5 ):
    s.settimeout( timeout )
    buf,eof			= b'',False
    try:
        while True:
            d			= s.recv( 65536 )
            if not d:
                eof		= True
                break
            buf		       += d
    except socket.timeout:
        pass
    except socket.error:
        eof			= True
    frames			= []
    while len( buf ) >= 24:
        cmd,ln,ses,sta		= struct.unpack( '<HHII', buf[:12] )
        if len( buf ) < 24 + ln:
            break
        frames.append( (cmd,ses,sta,buf[12:20],buf[24:24+ln]) )
        buf			= buf[24+ln:]
    return frames,eof

def main():
    logging.basicConfig( level=logging.CRITICAL )
    logging.getLogger().setLevel( logging.CRITICAL )
    ctl,thr			= start_server()
    bad				= []
    try:
        for command,payload in ( (0x0072,b''), (0x0073,b''), (0x1234,b'abcd') ):
            s			= socket.create_connection( ('127.0.0.1', PORT) )
            s.sendall( enip_frame( 0x65, struct.pack( '<HH', 1, 0 )))
            (reg,),_		= recv_all( s, .5 )
            ses			= reg[1]
            ctx			= b'CMD-%04x' % command
            s.sendall( enip_frame( command, payload, session=ses, context=ctx ))
            frames,eof		= recv_all( s )
            s.close()
            ok			= ( len( frames ) == 1 and frames[0][2] != 0
                                    and frames[0][1] == ses and frames[0][3] == ctx )
            print( "command 0x%04x: observed %d reply frame(s)%s, eof %s; expected 1 frame w/ non-zero status, context %r" % (
                command, len( frames ),
                ( " (status 0x%x, context %r)" % ( frames[0][2], frames[0][3] )) if frames else "", eof, ctx ))
            if not ok:
                bad.append( command )
    finally:
        ctl.control['done']	= True
        thr.join( 5 )
    if bad:
        print( "CONTRADICTION: unsupported command(s) %s not answered by one frame with non-zero status" % (
            ", ".join( "0x%04x" % c for c in bad )))
        sys.exit( 1 )
    print( "OK" )

if __name__ == "__main__":
    main()
