"""C06 contradiction 3 (unchanged code): client.connector declares correct replies "Mismatched" once the request
index reaches 100000000.

connector.issue derives each request's sender context from a running index (index_to_sender_context: the decimal
digits of the index) and yields that text as the context to match; cip_send's format_context silently truncates it
to the 8 bytes the encapsulation header has.  From index 10**8 on ( a long --repeat run, or simply index=... given
to issue / synchronous / pipeline / operate ) the wire carries b'10000000' while harvest expects b'100000000': the
simulator echoes exactly what it received, yet harvest raises "Request: 100000000 (Context: b'100000000'/b'10000000')
Mismatched".  Indices 10**8..10**8+9 moreover all share one wire context.  Expected: every in-order reply that
echoes the request's 8-byte sender context is accepted, for all index values.
"""
import logging, socket, sys, threading, time

from cpppo.dotdict import dotdict, apidict
from cpppo.server.enip import main as enip_main, client

PORT				= 44818

def start_server():
    ctl				= dotdict()
    ctl.control			= apidict( timeout=1.0 )
    ctl.control['done']		= False
    ctl.control['disable']	= False
    ctl.control['latency']	= 0.05
    argv			= [ '--no-print', '-a', 'localhost:%d' % PORT, 'SCADA=INT[100]' ]
    thr				= threading.Thread( target=enip_main.main, kwargs=dict( argv=argv, server=ctl ))
    thr.daemon			= True
    thr.start()
    for _ in range( 200 ):
        try:
            socket.create_connection( ('127.0.0.1', PORT), timeout=.5 ).close()
            return ctl,thr
        except Exception:
            time.sleep( .05 )
    raise RuntimeError( "simulator did not start" )

def main():
    logging.basicConfig( level=logging.CRITICAL )
    logging.getLogger().setLevel( logging.CRITICAL )
    ctl,thr			= start_server()
    bad				= []
    try:
        tags			= [ "SCADA[0-3]", "SCADA[1]=(INT)5", "SCADA[1]" ]
        for index in ( 0, 99999997, 99999998, 99999999, 100000000 ):
            with client.connector( host='127.0.0.1', port=PORT, timeout=2.0 ) as conn:
                try:
                    res		= list( conn.pipeline( operations=client.parse_operations( tags ),
                                                       index=index, depth=2, timeout=2.0 ))
                    got		= [ r[0] for r in res ]
                    ok		= got == list( range( index, index + len( tags )))
                    print( "index %9d..: harvested indices %r" % ( index, got ))
                except AssertionError as exc:
                    ok		= False
                    print( "index %9d..: harvest raised: %s" % ( index, str( exc ).split( ';' )[0] ))
            if not ok:
                bad.append( index )
    finally:
        ctl.control['done']	= True
        thr.join( 5 )
    if bad:
        print( "CONTRADICTION: starting at index %r the client rejects replies that echo the request's sender context "
               "( expected: all %d replies harvested, as for index 0 )" % ( bad, len( tags )))
        sys.exit( 1 )
    print( "OK" )

if __name__ == "__main__":
    main()
