"""C06 contradiction 2 (unchanged code): a bundle whose reply is 65520..65535 CIP bytes long is not answered at all.

A well-formed Multiple Service Packet (135 x Read Tag of a SINT[600] tag; the request frame is ~1.4KB) is answered
 - normally when the bundled reply has <= 65519 bytes,
 - by one frame with encapsulation status 0x08 when it has >= 65536 bytes (the CPF item length overflows in
   UCMM.request's own try/except),
 - by NOTHING (session dropped, later requests unanswered too) when it has 65520..65535 bytes: the CPF item still
   fits its UINT length, UCMM.request succeeds, but the SendRRData payload (item + 16) no longer fits the
   encapsulation header's UINT length and parser.enip_encode raises struct.error inside enip_srv_tcp.
Expected by the property: exactly one reply frame (with a non-zero encapsulation status, as for the larger ones).
"""
import logging, socket, struct, sys, threading, time

from cpppo.dotdict import dotdict, apidict
from cpppo.server.enip import main as enip_main

PORT				= 44818

def start_server():
    ctl				= dotdict()
    ctl.control			= apidict( timeout=1.0 )
    ctl.control['done']		= False
    ctl.control['disable']	= False
    ctl.control['latency']	= 0.05
    argv			= [ '--no-print', '-a', 'localhost:%d' % PORT, 'S=SINT[600]', 'SCADA=INT[10]' ]
    thr				= threading.Thread( target=enip_main.main, kwargs=dict( argv=argv, server=ctl ))
    thr.daemon			= True
    thr.start()
    for _ in range( 200 ):
        try:
            socket.create_connection( ('127.0.0.1', PORT), timeout=.5 ).close()
            return ctl,thr
        except Exception:
            time.sleep( .05 )
    raise RuntimeError( "simulator did not start" )

def enip_frame( command, payload=b'', session=0, context=b'\0'*8 ):
    return struct.pack( '<HHII', command, len( payload ), session, 0 ) + context + struct.pack( '<I', 0 ) + payload

def rrdata( cip, session, context ):
    us				= b'\x52\x02\x20\x06\x24\x01\x05\x9d' + struct.pack( '<H', len( cip )) + cip \
                                  + ( b'\0' if len( cip ) % 2 else b'' ) + b'\x01\x00\x01\x00'
    cpf				= struct.pack( '<IHH', 0, 5, 2 ) + struct.pack( '<HHHH', 0, 0, 0xb2, len( us )) + us
    return enip_frame( 0x6f, cpf, session=session, context=context )

def read_tag( name, n ):
    return b'\x4c\x02\x91\x01' + name + b'\x00' + struct.pack( '<H', n )

def msp( reqs ):
    offs,o			= [],2 + 2 * len( reqs )
    for r in reqs:
        offs.append( o )
        o		       += len( r )
    return b'\x0a\x02\x20\x02\x24\x01' + struct.pack( '<H', len( reqs )) \
        + b''.join( struct.pack( '<H', o ) for o in offs ) + b''.join( reqs )

def bundle( target, K=135 ):
    """A bundle of K Read Tag S[0..n) whose reply (8A 00 00 00, count, K offsets, K x (CC 00 00 00 C2 00 + n)) is
    exactly 'target' bytes"""
    base			= 6 + 2 * K
    per				= ( target - base ) // K - 6
    ns				= [ per ] * K
    for i in range( target - ( base + sum( 6 + n for n in ns ))):
        ns[i]		       += 1
    assert base + sum( 6 + n for n in ns ) == target and max( ns ) <= 490
    return msp( [ read_tag( b'S', n ) for n in ns ] )

def recv_all( s, timeout=5.0 ):
    s.settimeout( timeout )
    buf,eof			= b'',False
    try:
        while True:
            d			= s.recv( 1 << 20 )
            if not d:
                eof		= True
                break
            buf		       += d
            s.settimeout( 1.0 )
    except socket.timeout:
        pass
    except socket.error:
        eof			= True
    frames			= []
    while len( buf ) >= 24:
        cmd,ln,ses,sta		= struct.unpack( '<HHII', buf[:12] )
        if len( buf ) < 24 + ln:
            break
        frames.append( (cmd,ses,sta,buf[12:20],buf[24:24+ln]) )
        buf			= buf[24+ln:]
    return frames,eof

def main():
    logging.basicConfig( level=logging.CRITICAL )
    logging.getLogger().setLevel( logging.CRITICAL )
    ctl,thr			= start_server()
    bad				= []
    try:
        for target in ( 65519, 65520, 65528, 65535, 65536 ):
            s			= socket.create_connection( ('127.0.0.1', PORT) )
            s.sendall( enip_frame( 0x65, struct.pack( '<HH', 1, 0 )))
            (reg,),_		= recv_all( s, .5 )
            ses			= reg[1]
            ctx			= b'B%07d' % target
            s.sendall( rrdata( bundle( target ), ses, ctx ))
            frames,eof		= recv_all( s )
            s.close()
            ok			= len( frames ) == 1 and frames[0][3] == ctx and frames[0][1] == ses
            print( "bundled reply of %5d bytes: observed %d reply frame(s)%s, eof %s; expected exactly 1 (context %r)" % (
                target, len( frames ),
                ( " (status 0x%x, %d payload bytes)" % ( frames[0][2], len( frames[0][4] ))) if frames else "",
                eof, ctx ))
            if not ok:
                bad.append( target )
    finally:
        ctl.control['done']	= True
        thr.join( 5 )
    if bad:
        print( "CONTRADICTION: requests whose bundled reply is %s bytes long received no reply frame" % ( bad ))
        sys.exit( 1 )
    print( "OK" )

if __name__ == "__main__":
    main()
