"""C06 contradiction 4 (unchanged code): client.legacy() drops the sender_context (and command, timeout) it is given.

client.legacy( command, cip=None, timeout=None, sender_context=b'' ) ends in "return self.cip_send( cip=cip )": the
three other arguments are never forwarded.  A Legacy 0x0001 request issued with sender_context=b'LEGACY01' goes on
the wire with an all-NUL context, so the (correct, echoing) reply can not be matched to the request by its context,
unlike list_identity / list_services / list_interfaces / register which pass sender_context on; with cip=None the
call cannot even produce a frame, because the command code is lost, too.
Expected: the reply to a request issued with sender context X carries X, for every request kind of the client.
"""
import logging, socket, sys, threading, time

from cpppo.dotdict import dotdict, apidict
from cpppo.server.enip import main as enip_main, client

PORT				= 44818

def start_server():
    ctl				= dotdict()
    ctl.control			= apidict( timeout=1.0 )
    ctl.control['done']		= False
    ctl.control['disable']	= False
    ctl.control['latency']	= 0.05
    argv			= [ '--no-print', '-a', 'localhost:%d' % PORT, 'SCADA=INT[100]' ]
    thr				= threading.Thread( target=enip_main.main, kwargs=dict( argv=argv, server=ctl ))
    thr.daemon			= True
    thr.start()
    for _ in range( 200 ):
        try:
            socket.create_connection( ('127.0.0.1', PORT), timeout=.5 ).close()
            return ctl,thr
        except Exception:
            time.sleep( .05 )
    raise RuntimeError( "simulator did not start" )

def main():
    logging.basicConfig( level=logging.CRITICAL )
    logging.getLogger().setLevel( logging.CRITICAL )
    ctl,thr			= start_server()
    bad				= []
    try:
        with client.connector( host='127.0.0.1', port=PORT, timeout=2.0 ) as conn:
            for name,ctx,issue in [
                    ( 'list_identity',	b'LISTID01', lambda c: conn.list_identity( sender_context=c )),
                    ( 'list_services',	b'LISTSV01', lambda c: conn.list_services( sender_context=c )),
                    ( 'legacy 0x0001',	b'LEGACY01', lambda c: conn.legacy( 0x0001, cip=dotdict( legacy=dotdict() ),
                                                                            sender_context=c )),
            ]:
                issue( ctx )
                rsp,_		= client.await_response( conn, timeout=2.0 )
                got		= bytes( bytearray( rsp.enip.sender_context.input )) if rsp else None
                print( "%-14s issued with sender context %r; reply (command 0x%04x) carries %r" % (
                    name, ctx, rsp.enip.command if rsp else 0, got ))
                if got != ctx:
                    bad.append( name )
    finally:
        ctl.control['done']	= True
        thr.join( 5 )
    if bad:
        print( "CONTRADICTION: reply to %s does not carry the sender context the request was issued with" % (
            ", ".join( bad )))
        sys.exit( 1 )
    print( "OK" )

if __name__ == "__main__":
    main()
