#!/usr/bin/env python
"""C19 contradiction 1 (unchanged code): a range that legally spans a 10000-block boundary INSIDE one register bank
(Holding Registers 40001-99999, or any of the 6-digit banks 100001-165536 / 300001-365536 / 400001-465536) is not merged
with a later range that starts in the next block, even when that later range overlaps it or is nested in it.  merge()
then emits overlapping (and, once shattered, unsorted) ranges: not "sorted, pairwise disjoint".

The merge condition compares the block of the NEW range's start with the block of the merged range's BASE:
    address // 10000 == base // 10000 and address < base + length + reach
so an overlapping/nested range whose start lies past the boundary fails the first clause and is started afresh.
"""
import sys
from cpppo.remote.plc_modbus import merge

cases = [
    # ranges (all inside ONE bank), reach, limit
    ( [ (49990, 20), (50005, 1) ],			1,	None ),	# nested in the first; Holding Registers 40001-99999
    ( [ (49995, 10), (50000, 10) ],			1,	None ),	# overlapping
    ( [ (409992, 13), (410000, 17) ],			10,	None ),	# 6-digit Holding Registers
    ( [ (329996, 10), (330002, 19) ],			100,	7    ),	# 6-digit Input Registers, shattered: also unsorted
    ( [ (109994, 27), (110001, 19) ],			1,	None ),	# 6-digit Statuses
]

bad				= 0
for ranges,reach,limit in cases:
    out				= list( merge( ranges, reach=reach, limit=limit ))
    want			= set()
    for a,c in ranges:
        want.update( range( a, a+c ))
    seen			= []
    for a,c in out:
        seen.extend( range( a, a+c ))
    problems			= []
    if out != sorted( out ):
        problems.append( "not sorted" )
    dup				= sorted( r for r in set( seen ) if seen.count( r ) > 1 )
    if dup:
        problems.append( "registers %d..%d emitted in more than one range" % ( dup[0], dup[-1] ))
    if want - set( seen ):
        problems.append( "requested registers dropped: %r" % sorted( want - set( seen ))[:5] )
    if problems:
        bad		       += 1
        print( "merge( %r, reach=%r, limit=%r )\n  observed: %r\n  expected: sorted, pairwise disjoint ranges covering %d..%d once\n  problems: %s" % (
            ranges, reach, limit, out, min( want ), max( want ), "; ".join( problems )))

if bad:
    print( "FAILED: %d of %d inputs (each within one register bank) yield overlapping ranges" % ( bad, len( cases )))
    sys.exit( 1 )
print( "OK" )
