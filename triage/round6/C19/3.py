#!/usr/bin/env python
"""C19 contradiction 3 (unchanged code): poller_modbus._poller computes its merged poll ranges with
    rngs = set( merge( ( (a,1) for a in self._data ), reach=self.reach ))
The comment above that line says the traversal of self._data "must be atomic" because poll()/read() add entries from other
threads without a lock -- but a generator expression over the dict is NOT atomic: sorted() inside merge() pulls it one
item at a time, running byte-code (and yielding the GIL) between items.  A poll()/read() of a NEW address arriving from
another thread during that traversal raises "RuntimeError: dictionary changed size during iteration" in the poller thread;
it is outside every try, so the thread dies silently, and from then on NO requested register is polled any more (the
object still answers read() with stale data and is_alive() is the only tell).

No PLC is needed: the client points at a closed localhost port, each poll merely fails with PlcOffline.
"""
import sys, time, threading, logging
logging.disable( logging.CRITICAL )		# every poll fails (no PLC); keep the output readable
from cpppo.remote.plc_modbus import poller_modbus
from cpppo.remote.pymodbus_fixes import modbus_client_tcp, Defaults

Defaults.Timeout		= 0.05
died				= []
threading.excepthook		= lambda args: died.append( args.exc_value )

client				= modbus_client_tcp( host='127.0.0.1', port=1 )	# nothing listens there
plc				= poller_modbus( "race", client=client, reach=100 )
try:
    # A large (but legal) set of Coils and Statuses: few merged ranges, long traversal of _data.
    for a in range( 100001, 165537 ):
        plc.poll( a )
    for a in range( 1, 10000 ):
        plc.poll( a )
    plc.rate			= 0.001						# start polling cycles
    begun			= time.time()
    a				= 400001
    while time.time() - begun < 15 and plc.is_alive() and a <= 465536:
        plc.poll( a )			# an ordinary request for one more register, from the application thread
        a		       += 1
        time.sleep( 0.0005 )
    alive			= plc.is_alive()
finally:
    plc.done			= True

if not alive:
    print( "poller thread DIED after %.2fs with %r while %d registers were requested; expected: it keeps polling the merged ranges of all requested registers" % (
        time.time() - begun, died[0] if died else None, len( plc._data )))
    sys.exit( 1 )
print( "OK: poller survived %d concurrent poll() requests" % ( a - 400001 ))
