#!/usr/bin/env python
"""C19 contradiction 2 (unchanged code): an EMPTY range (address, 0) requests no register, yet when it lies within reach
of the range being built merge() stretches that range up to the empty range's address:
    length = max( length, address + count - base )		# count == 0 --> length grows to address - base
A chain of empty ranges, each within reach of the previous stretch, drags the merged range arbitrarily far from the only
requested register; the union then contains registers that are NOT within the reach distance of any requested one.
(An empty range that cannot be merged is dropped correctly, so only the merged path is inconsistent.)
"""
import sys
from cpppo.remote.plc_modbus import merge

def check( ranges, reach ):
    out				= list( merge( ranges, reach=reach ))
    want			= set()
    for a,c in ranges:
        want.update( range( a, a+c ))
    got				= set()
    for a,c in out:
        got.update( range( a, a+c ))
    stray			= sorted( r for r in got - want
                                          if not any( abs( r - w ) < reach for w in want ))
    return out,want,stray

bad				= 0
for ranges,reach in [
        ( [ (40001,1), (40100,0), (40199,0), (40298,0) ],	100 ),	# one requested register, three empty ranges
        ( [ (1,1), (5,0), (9,0), (13,0), (17,0) ],		5 ),
]:
    out,want,stray		= check( ranges, reach )
    if stray:
        bad		       += 1
        print( "merge( %r, reach=%r )\n  observed: %r\n  requested registers: %r\n  expected: no register farther than reach=%d from a requested one\n  got %d such registers: %d..%d" % (
            ranges, reach, out, sorted( want ), reach, len( stray ), stray[0], stray[-1] ))
if bad:
    print( "FAILED: empty ranges extend the merged range beyond the reach of every requested register" )
    sys.exit( 1 )
print( "OK" )
