#!/usr/bin/env python
"""C07 contradiction 1 (unchanged code): a Read Tag of an unknown tag, sent alone in an Unconnected
Send, is not answered with a CIP reply at all -- the whole EtherNet/IP request fails with status 0x08
and the server ends the session, so the requests behind it are never executed.  The same request as a
member of a Multiple Service Packet is answered alone with status 0x05 (ext. 0x0000), and its
neighbours are unaffected.

Expected (property C07): the same individual reply (status 0x05, extended 0x0000, no data), and the
same tag state afterwards, whether the requests are bundled or issued one by one.

Exits 1 (printing observed vs. expected) when the contradiction is present, 0 otherwise.
"""
from __future__ import print_function

import sys
import threading
import time
import traceback

import cpppo
from cpppo.server import enip
from cpppo.server.enip import logix, client
from cpppo.server.enip.main import main as enip_main

TAGS				= [ 'A=INT[4]' ]
OPERATIONS			= [ 'A[0]=11', 'NOPE', 'A[1]=22', 'A[0-3]' ]

def run_server( port, body ):
    enip.lookup_reset()
    logix.setup_reset()
    control			= cpppo.apidict( enip.timeout, { 'done': False } )
    result			= {}
    def runner():
        try:
            time.sleep( .5 )
            result['value']	= body( ('localhost', port) )
        except Exception as exc:
            result['error']	= "%s: %s" % ( type( exc ).__name__, exc )
            result['trace']	= traceback.format_exc()
        finally:
            control.done	= True
    def idle():
        if idle.thread is None:
            idle.thread		= threading.Thread( target=runner )
            idle.thread.daemon	= True
            idle.thread.start()
    idle.thread			= None
    enip_main( argv=[ '--address', 'localhost:%d' % port ] + TAGS,
               server={ 'control': control }, idle_service=idle )
    idle.thread.join()
    assert 'error' not in result, result['error'] + '\n' + result['trace']
    return result['value']

def state( addr ):
    with client.connector( host=addr[0], port=addr[1], timeout=5 ) as conn:
        return [ val for idx,dsc,req,rpy,sts,val in conn.synchronous(
            operations=client.parse_operations( [ 'A[0-3]' ] ), timeout=5 ) ]

def singly( addr ):
    out				= []
    conn			= client.connector( host=addr[0], port=addr[1], timeout=5 )
    for i,op in enumerate( OPERATIONS ):
        try:
            with conn:
                for idx,dsc,req,rpy,sts,val in conn.synchronous(
                        operations=client.parse_operations( [ op ] ), index=i, timeout=5 ):
                    out.append( ( rpy.service, sts, val ))
        except Exception as exc:
            out.append( "no CIP reply: %s: %s" % ( type( exc ).__name__, str( exc ).split( '\n' )[0] ))
    return out,state( addr )

def bundled( addr ):
    out				= []
    with client.connector( host=addr[0], port=addr[1], timeout=5 ) as conn:
        for idx,dsc,req,rpy,sts,val in conn.synchronous(
                operations=client.parse_operations( OPERATIONS ), multiple=4000, timeout=5 ):
            out.append( ( rpy.service, sts, val ))
    return out,state( addr )

def main():
    one,state_1			= run_server( 44972, singly )
    two,state_2			= run_server( 44973, bundled )
    print( "requests:    %r" % ( OPERATIONS, ))
    print( "one by one:  %r\n  tag A then: %r" % ( one, state_1 ))
    print( "bundled:     %r\n  tag A then: %r" % ( two, state_2 ))
    if one != two or state_1 != state_2:
        print( "CONTRADICTION: expected the same replies (the unknown tag answered with status 0x05, ext. [0])"
               " and the same tag state both ways" )
        return 1
    print( "OK" )
    return 0

if __name__ == "__main__":
    sys.exit( main() )
