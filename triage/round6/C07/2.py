#!/usr/bin/env python
"""C07 contradiction 2 (unchanged code): a request for a service the addressed Object does not
support (here: service code 0x4B sent to the Logix Message Router @2/1), sent alone in an Unconnected
Send, gets no CIP reply -- the EtherNet/IP request fails with status 0x08 and the server ends the
session (the Object parser only has a reply-format parser for unknown service codes, so the parse in
Connection_Manager.request raises; with a payload that happens to parse, Object.request raises
RequestUnrecognized out of it instead), so the requests behind it are lost.  As a member of a Multiple Service Packet the same request is answered alone with
service 0xCB, status 0x08 ("Service not supported"), and its neighbours are executed.

Expected (property C07): the same individual reply and the same tag state both ways.

Exits 1 (printing observed vs. expected) when the contradiction is present, 0 otherwise.
"""
from __future__ import print_function

import sys
import threading
import time
import traceback

import cpppo
from cpppo.server import enip
from cpppo.server.enip import logix, client
from cpppo.server.enip.main import main as enip_main

TAGS				= [ 'A=INT[4]' ]
OPERATIONS			= [ 'A[0]=11', { 'method': 'service_code', 'code': 0x4B, 'path': '@2/1', 'data_size': 4 }, 'A[1]=22', 'A[0-3]' ]

def run_server( port, body ):
    enip.lookup_reset()
    logix.setup_reset()
    control			= cpppo.apidict( enip.timeout, { 'done': False } )
    result			= {}
    def runner():
        try:
            time.sleep( .5 )
            result['value']	= body( ('localhost', port) )
        except Exception as exc:
            result['error']	= "%s: %s" % ( type( exc ).__name__, exc )
            result['trace']	= traceback.format_exc()
        finally:
            control.done	= True
    def idle():
        if idle.thread is None:
            idle.thread		= threading.Thread( target=runner )
            idle.thread.daemon	= True
            idle.thread.start()
    idle.thread			= None
    enip_main( argv=[ '--address', 'localhost:%d' % port ] + TAGS,
               server={ 'control': control }, idle_service=idle )
    idle.thread.join()
    assert 'error' not in result, result['error'] + '\n' + result['trace']
    return result['value']

def state( addr ):
    with client.connector( host=addr[0], port=addr[1], timeout=5 ) as conn:
        return [ val for idx,dsc,req,rpy,sts,val in conn.synchronous(
            operations=client.parse_operations( [ 'A[0-3]' ] ), timeout=5 ) ]

def singly( addr ):
    out				= []
    conn			= client.connector( host=addr[0], port=addr[1], timeout=5 )
    for i,op in enumerate( OPERATIONS ):
        try:
            with conn:
                for idx,dsc,req,rpy,sts,val in conn.synchronous(
                        operations=client.parse_operations( [ dict( op ) if isinstance( op, dict ) else op ] ), index=i, timeout=5 ):
                    out.append( ( rpy.service, sts, val ))
        except Exception as exc:
            out.append( "no CIP reply: %s: %s" % ( type( exc ).__name__, str( exc ).split( '\n' )[0] ))
    return out,state( addr )

def bundled( addr ):
    out				= []
    with client.connector( host=addr[0], port=addr[1], timeout=5 ) as conn:
        for idx,dsc,req,rpy,sts,val in conn.synchronous(
                operations=client.parse_operations( [ dict( o ) if isinstance( o, dict ) else o for o in OPERATIONS ] ), multiple=4000, timeout=5 ):
            out.append( ( rpy.service, sts, val ))
    return out,state( addr )

def main():
    one,state_1			= run_server( 44974, singly )
    two,state_2			= run_server( 44975, bundled )
    print( "requests:    %r" % ( OPERATIONS, ))
    print( "one by one:  %r\n  tag A then: %r" % ( one, state_1 ))
    print( "bundled:     %r\n  tag A then: %r" % ( two, state_2 ))
    if one != two or state_1 != state_2:
        print( "CONTRADICTION: expected the same replies (the unsupported service answered with status 0x08)"
               " and the same tag state both ways" )
        return 1
    print( "OK" )
    return 0

if __name__ == "__main__":
    sys.exit( main() )
