#!/usr/bin/env python
"""C07 contradiction 3 (unchanged code, client side): client.connector.issue accepts any iterable of
operations (parse_operations passes dicts through, and is itself a generator).  When bundling, the Write
Tag requests are only encoded when the Multiple Service Packet is flushed, and each request still
refers to the caller's 'data' list (op.copy() is shallow, client.write stores the list itself).  A
caller that produces its operations lazily and re-uses one buffer for the values -- which works when
the requests are issued one by one, each being encoded and sent at once -- gets the LAST buffer
contents written by every Write Tag of the bundle.

Expected (property C07): bundling the requests leaves the tags in exactly the same state as issuing
the same requests individually in that order.

Exits 1 (printing observed vs. expected) when the contradiction is present, 0 otherwise.
"""
from __future__ import print_function

import sys
import threading
import time
import traceback

import cpppo
from cpppo.server import enip
from cpppo.server.enip import logix, client, parser
from cpppo.server.enip.main import main as enip_main

TAGS				= [ 'A=INT[6]' ]

def operations():
    """Three Write Tags of two INTs each, then a read; the values are handed over in one re-used list."""
    values			= [ 0, 0 ]
    for i in range( 3 ):
        values[0]		= i + 1
        values[1]		= 10 * ( i + 1 )
        yield { 'method': 'write', 'path': 'A[%d-%d]' % ( 2 * i, 2 * i + 1 ), 'data': values,
                'tag_type': parser.INT.tag_type, 'elements': 2 }
    yield 'A[0-5]'

def run_server( port, body ):
    enip.lookup_reset()
    logix.setup_reset()
    control			= cpppo.apidict( enip.timeout, { 'done': False } )
    result			= {}
    def runner():
        try:
            time.sleep( .5 )
            result['value']	= body( ('localhost', port) )
        except Exception as exc:
            result['error']	= "%s: %s" % ( type( exc ).__name__, exc )
            result['trace']	= traceback.format_exc()
        finally:
            control.done	= True
    def idle():
        if idle.thread is None:
            idle.thread		= threading.Thread( target=runner )
            idle.thread.daemon	= True
            idle.thread.start()
    idle.thread			= None
    enip_main( argv=[ '--address', 'localhost:%d' % port ] + TAGS,
               server={ 'control': control }, idle_service=idle )
    idle.thread.join()
    assert 'error' not in result, result['error'] + '\n' + result['trace']
    return result['value']

def state( addr ):
    with client.connector( host=addr[0], port=addr[1], timeout=5 ) as conn:
        return [ val for idx,dsc,req,rpy,sts,val in conn.synchronous(
            operations=client.parse_operations( [ 'A[0-5]' ] ), timeout=5 ) ]

def issue( multiple ):
    def body( addr ):
        out			= []
        with client.connector( host=addr[0], port=addr[1], timeout=5 ) as conn:
            for idx,dsc,req,rpy,sts,val in conn.synchronous(
                    operations=client.parse_operations( operations() ), multiple=multiple, timeout=5 ):
                out.append( ( rpy.service, sts, val ))
        return out,state( addr )
    return body

def main():
    one,state_1			= run_server( 44976, issue( 0 ))
    two,state_2			= run_server( 44977, issue( 4000 ))
    print( "requests:    A[0-1]=1,10  A[2-3]=2,20  A[4-5]=3,30  A[0-5]   (generated lazily, one values list re-used)" )
    print( "one by one:  %r\n  tag A then: %r" % ( one, state_1 ))
    print( "bundled:     %r\n  tag A then: %r" % ( two, state_2 ))
    if one != two or state_1 != state_2:
        print( "CONTRADICTION: expected the same replies "
               " and the same tag state both ways" )
        return 1
    print( "OK" )
    return 0

if __name__ == "__main__":
    sys.exit( main() )
