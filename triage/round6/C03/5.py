"""C03 contradiction 5 (unchanged code): a simulator started a second time in the same process ( cpppo.server.enip.main.main()
called again, as the project's own client tests do ) serves a tag that was never written with another tag's old values, and
keeps serving tags that are not in its configuration.

main() collects its tags in the MODULE-LEVEL dotdict  cpppo.server.enip.main.tags  and never clears it.  The second main()

    first :  A@0x99/1/1=INT[3]  P=DINT        ( client writes A = 1,2,3 and P = 9 )
    second:  B@0x99/1/1=INT[3]  Q=DINT

finds the stale entry A while it looks "thru defined tags for one assigned to same cls/ins/att" and hands A's old Attribute
object ( values 1,2,3 ) to B; it also passes the stale entries A and P on to logix.setup with every request.  Observed in
the second run: B, never written, reads [1, 2, 3]; A and P still answer.  ( Had B been called A again, it would have got
a fresh Attribute of zeros: setup_tag replaces the Attribute of a re-configured tag. )

Expected: a tag never written since the simulator was (re)started reads as zeros, like a re-configured tag of the same
name does; main() works on the tags of its own argv.
"""
import sys
import threading
import time
import logging

import cpppo
from cpppo.server.enip import client
from cpppo.server.enip.main import main as enip_main

logging.disable( logging.WARNING )


def serve( port, argv, operations ):
    """Run a simulator in a Thread, perform each list of operations over its own connection, stop the simulator"""
    addr			= ( '127.0.0.1', port )
    control			= cpppo.apidict( 2.0, { 'done': False } )
    thread			= threading.Thread( target=enip_main, kwargs=dict(
        argv=[ '-a', '%s:%d' % addr ] + argv, server={ 'control': control } ))
    thread.daemon		= True
    thread.start()
    results			= {}
    try:
        for tags in operations:
            for attempt in range( 50 ):
                try:
                    with client.connector( host=addr[0], port=addr[1], timeout=5 ) as conn:
                        for idx,dsc,op,rpy,sts,val in conn.pipeline(
                                operations=list( client.parse_operations( tags )), depth=1 ):
                            results[tags[idx]] = ( sts, val )
                    break
                except ( OSError, IOError ):
                    time.sleep( .1 )		# not listening yet
                except Exception as exc:	# eg. a failed request ends the session
                    results[tags[0]]	= ( type( exc ).__name__, None )
                    break
    finally:
        control['done']		= True
        thread.join( 5 )
    return results


first				= serve( 44859, [ 'A@0x99/1/1=INT[3]', 'P=DINT' ],
                                         [[ 'A[0-2]=1,2,3', 'P=(DINT)9', 'A[0-2]', 'P' ]] )
print( "first  run ( A@0x99/1/1=INT[3] P=DINT ): %r" % ( first, ))
assert first.get( 'A[0-2]' ) == ( 0, [1,2,3] ) and first.get( 'P' ) == ( 0, [9] ), first

second				= serve( 44860, [ 'B@0x99/1/1=INT[3]', 'Q=DINT' ],
                                         [[ 'B[0-2]' ], [ 'Q' ], [ 'A[0-2]' ], [ 'P' ]] )
print( "second run ( B@0x99/1/1=INT[3] Q=DINT ): %r" % ( second, ))

bad				= []
if second.get( 'B[0-2]' ) != ( 0, [0,0,0] ):
    bad.append( "B, never written in the second run, reads %r; expected (0, [0, 0, 0])" % ( second.get( 'B[0-2]' ), ))
for old in ( 'A[0-2]', 'P' ):
    if second.get( old, ( None, None ))[0] == 0:
        # ( not decisive: the CIP Object directory and symbol table are process-wide, too, until device.lookup_reset() )
        print( "note: %s is not configured in the second run but still reads %r" % ( old, second.get( old ), ))
if second.get( 'Q' ) != ( 0, [0] ):
    bad.append( "Q reads %r; expected (0, [0])" % ( second.get( 'Q' ), ))

if bad:
    print( "CONTRADICTION (C03: a tag never written reads as zeros; only configured tags exist):" )
    for b in bad:
        print( "  " + b )
    sys.exit( 1 )
print( "OK" )
