"""C03 contradiction 1 (unchanged code): a Write Tag Fragmented whose byte offset is NOT a multiple of the tag's element
size is accepted, and its data lands in elements nobody addressed.

Logix.reply_elements computes  begadvance = off // siz  and  offremains = off - begadvance * siz ; for reads the caller
refuses offremains != 0 ( status 0xFF / 0x2105 ), for writes offremains is ignored.  So

    INT[10] tag A, Write Tag Fragmented  elements=4 offset=3 data=[99,98]

answers status 0 and overwrites A[1] and A[2] (offset rounded DOWN to 2 bytes), while the same offset in a Read Tag
Fragmented is refused.  The same arithmetic misplaces the data of cpppo's own client when it writes a narrower type
with an offset ( "A[0-9]+2=(SINT)5,6" against a DINT tag: the client means elements 2,3 -- it divides the byte offset
by the size of the type it sends -- the simulator divides by 4, drops the remainder and overwrites elements 0,1 ).

Expected: the request is refused ( 0xFF / 0x2104 "offset beyond/invalid" or 0x2105 ), as the read is, and the tag is
unchanged; or at least: only elements the request addressed are changed.
"""
import struct
import sys
import logging

import cpppo
from cpppo.server.enip import device, logix, parser

logging.disable( logging.CRITICAL )


def setup( specs ):
    """specs: ( name, type, default, "@cls/ins/att" or None ) ...; returns the Logix Message Router"""
    device.lookup_reset()
    logix.setup_reset()
    tags			= cpppo.dotdict()
    for name,typ,default,addr in specs:
        ent			= cpppo.dotdict()
        ent.attribute		= device.Attribute( name, typ, default=default )
        ent.path		= {"segment": device.parse_path( addr )} if addr else None
        ent.error		= 0
        dict.__setitem__( tags, name, ent )
    logix.setup( tags=tags )
    return device.lookup( 0x02, 1 )


def transact( MR, request ):
    """Encode the request, let the Message Router parse and process it, and decode its reply"""
    encoded			= logix.Logix.produce( cpppo.dotdict( request ))
    data			= cpppo.dotdict()
    with MR.parser as machine:
        for _ in machine.run( source=cpppo.peekable( bytes( encoded )), data=data ):
            pass
    MR.request( data )
    reply			= cpppo.dotdict()
    with MR.parser as machine:
        for _ in machine.run( source=cpppo.peekable( bytes( data.input )), data=reply ):
            pass
    return reply


def path( text ):
    return {"segment": device.parse_path( text )}


MR				= setup( [ ( 'A', parser.INT, [0]*10, None ), ( 'D', parser.DINT, [0]*10, None ) ] )
bad				= []

# 1) INT tag, INT data, odd byte offset
before				= list( transact( MR, { 'path': path( 'A' ), 'read_tag': { 'elements': 10 }} ).read_tag.data )
rd				= transact( MR, { 'path': path( 'A' ), 'read_frag':  { 'elements': 4, 'offset': 3 }} )
wr				= transact( MR, { 'path': path( 'A' ), 'write_frag': { 'type': parser.INT.tag_type, 'elements': 4,
                                                                           'offset': 3, 'data': [99,98] }} )
after				= list( transact( MR, { 'path': path( 'A' ), 'read_tag': { 'elements': 10 }} ).read_tag.data )
print( "INT[10] A: Read  Tag Fragmented elements=4 offset=3 --> status 0x%02x" % rd.status )
print( "INT[10] A: Write Tag Fragmented elements=4 offset=3 data=[99,98] --> status 0x%02x" % wr.status )
print( "           before %r\n           after  %r" % ( before, after ))
if wr.status == 0 or after != before:
    bad.append( "mid-element offset 3 into an INT tag accepted (status 0x%02x), tag changed %r -> %r; expected: refused, unchanged"
                % ( wr.status, before, after ))

# 2) DINT tag, SINT data (admitted by the simulator), byte offset 2: whichever element size is meant, elements 0 and 1
#    of the tag are not both addressed ( in bytes of the DINT tag the offset is mid-element; in SINT units it is element 2 )
wr				= transact( MR, { 'path': path( 'D' ), 'write_frag': { 'type': parser.SINT.tag_type, 'elements': 10,
                                                                           'offset': 2, 'data': [5,6] }} )
after				= list( transact( MR, { 'path': path( 'D' ), 'read_tag': { 'elements': 10 }} ).read_tag.data )
print( "DINT[10] D: Write Tag Fragmented (SINT) elements=10 offset=2 data=[5,6] --> status 0x%02x, tag now %r" % ( wr.status, after ))
if wr.status == 0 and after[:2] == [5,6]:
    bad.append( "byte offset 2 into a DINT tag overwrote elements 0,1: %r; expected: refused, or elements 2,3 (offset in units of the data sent)"
                % ( after, ))

if bad:
    print( "CONTRADICTION (C03: a write changes only the addressed elements):" )
    for b in bad:
        print( "  " + b )
    sys.exit( 1 )
print( "OK" )
