"""C03 contradiction 3 (unchanged code): a configured tag with a multi-segment name "Pump.Speed" becomes unreachable as
soon as its first segment "Pump" is a configured tag, too.

device.resolve develops the symbolic name segment by segment and looks the text developed SO FAR up in the symbol table:
with the tags  Pump  and  Pump.Speed  both configured, the path [symbolic Pump][symbolic Speed] matches "Pump" at the first
segment ( the developing text is reset ), and the second segment is then looked up as the tag "Speed" -- which does not
exist: status 0x05, "Unrecognized symbolic name 'Speed'".  Without the tag Pump the very same request works.  So the
simulator does not behave like a set of independent arrays: configuring one more tag makes another tag unreadable and
unwritable, for every service.

Expected: the longest configured name matching the symbolic segments is resolved ( Pump.Speed ), and both tags are served.
"""
import struct
import sys
import logging

import cpppo
from cpppo.server.enip import device, logix, parser

logging.disable( logging.CRITICAL )


def setup( specs ):
    """specs: ( name, type, default, "@cls/ins/att" or None ) ...; returns the Logix Message Router"""
    device.lookup_reset()
    logix.setup_reset()
    tags			= cpppo.dotdict()
    for name,typ,default,addr in specs:
        ent			= cpppo.dotdict()
        ent.attribute		= device.Attribute( name, typ, default=default )
        ent.path		= {"segment": device.parse_path( addr )} if addr else None
        ent.error		= 0
        dict.__setitem__( tags, name, ent )
    logix.setup( tags=tags )
    return device.lookup( 0x02, 1 )


def transact( MR, request ):
    """Encode the request, let the Message Router parse and process it, and decode its reply"""
    encoded			= logix.Logix.produce( cpppo.dotdict( request ))
    data			= cpppo.dotdict()
    with MR.parser as machine:
        for _ in machine.run( source=cpppo.peekable( bytes( encoded )), data=data ):
            pass
    MR.request( data )
    reply			= cpppo.dotdict()
    with MR.parser as machine:
        for _ in machine.run( source=cpppo.peekable( bytes( data.input )), data=reply ):
            pass
    return reply


def path( text ):
    return {"segment": device.parse_path( text )}


bad				= []
for specs in (
        [ ( 'Pump.Speed', parser.DINT, [0,0], None ) ],
        [ ( 'Pump', parser.INT, [0]*3, None ), ( 'Pump.Speed', parser.DINT, [0,0], None ) ],
        [ ( 'Pump.Speed', parser.DINT, [0,0], '@0x99/1/2' ), ( 'Pump', parser.INT, [0]*3, '@0x99/1/1' ) ] ):
    MR				= setup( specs )
    names			= [ s[0] for s in specs ]
    wr				= transact( MR, { 'path': path( 'Pump.Speed' ), 'write_tag': { 'type': parser.DINT.tag_type, 'data': [7,8] }} )
    rd				= transact( MR, { 'path': path( 'Pump.Speed' ), 'read_tag': { 'elements': 2 }} )
    got				= list( rd.read_tag.data ) if rd.status == 0 else None
    print( "tags %-24r: Write Tag Pump.Speed=[7,8] status 0x%02x; Read Tag Pump.Speed status 0x%02x data %r" % (
        names, wr.status, rd.status, got ))
    if wr.status != 0 or got != [7,8]:
        bad.append( "tags %r: write status 0x%02x, read status 0x%02x data %r; expected 0, 0, [7, 8]" % ( names, wr.status, rd.status, got ))
    if 'Pump' in names:
        rd			= transact( MR, { 'path': path( 'Pump' ), 'read_tag': { 'elements': 3 }} )
        if rd.status != 0 or list( rd.read_tag.data ) != [0,0,0]:
            bad.append( "tags %r: Pump itself reads status 0x%02x %r" % ( names, rd.status, rd.get( 'read_tag.data' )))

if bad:
    print( "CONTRADICTION (C03: every configured tag, also one with a multi-segment symbolic name, can be read and written):" )
    for b in bad:
        print( "  " + b )
    sys.exit( 1 )
print( "OK" )
