"""C03 contradiction 4 (unchanged code): a tag bound to an explicit address inside an instance of one of the simulator's
standard (non-Logix) classes cannot be read or written by name, and the request is not even answered.

    python -m cpppo.server.enip 'Trip@0x66/1/20=INT[2]' Other=INT         ( or @1/1/20 Identity, @0xF5/1/20 TCP/IP, @6/1/20 ... )

is accepted, the Attribute is created at class 0x66 instance 1 attribute 20, and Get Attribute Single @0x66/1/20 serves it.
But  Read Tag "Trip"  is routed ( Logix.request -> Message_Router.route ) to the plain device.Object at 0x66/1, whose
Object.request raises RequestUnrecognized for service 0x4C and whose produce() then raises again: no reply is produced,
the exception leaves Logix.request ( whose docstring promises "Any exception should result in a reply being generated
with a non-zero status" ), and in the real server the whole session is closed with EtherNet/IP status 0x08.  Only tags
bound to classes that did not exist before ( created on the fly as Logix subclasses by setup_tag ) are served.

Expected: the tag is served like any other ( the Logix Message Router knows the Attribute: lookup( 0x66, 1, 20 ) ), or at
the very least the request is answered with an error status and the session survives.
"""
import struct
import sys
import logging

import cpppo
from cpppo.server.enip import device, logix, parser

logging.disable( logging.CRITICAL )


def setup( specs ):
    """specs: ( name, type, default, "@cls/ins/att" or None ) ...; returns the Logix Message Router"""
    device.lookup_reset()
    logix.setup_reset()
    tags			= cpppo.dotdict()
    for name,typ,default,addr in specs:
        ent			= cpppo.dotdict()
        ent.attribute		= device.Attribute( name, typ, default=default )
        ent.path		= {"segment": device.parse_path( addr )} if addr else None
        ent.error		= 0
        dict.__setitem__( tags, name, ent )
    logix.setup( tags=tags )
    return device.lookup( 0x02, 1 )


def transact( MR, request ):
    """Encode the request, let the Message Router parse and process it, and decode its reply"""
    encoded			= logix.Logix.produce( cpppo.dotdict( request ))
    data			= cpppo.dotdict()
    with MR.parser as machine:
        for _ in machine.run( source=cpppo.peekable( bytes( encoded )), data=data ):
            pass
    MR.request( data )
    reply			= cpppo.dotdict()
    with MR.parser as machine:
        for _ in machine.run( source=cpppo.peekable( bytes( data.input )), data=reply ):
            pass
    return reply


def path( text ):
    return {"segment": device.parse_path( text )}


MR				= setup( [ ( 'Trip', parser.INT, [0,0], '@0x66/1/20' ), ( 'Other', parser.INT, 0, None ) ] )
bad				= []

gas				= transact( MR, { 'path': path( '@0x66/1/20' ), 'get_attribute_single': True } )
print( "Get Attribute Single @0x66/1/20: status 0x%02x data %r" % ( gas.status, gas.get( 'get_attribute_single.data' )))
assert gas.status == 0 and list( gas.get_attribute_single.data ) == [0,0,0,0], gas

for what,request in [
        ( 'Write Tag Trip[1]=5',	{ 'path': path( 'Trip[1]' ), 'write_tag': { 'type': parser.INT.tag_type, 'data': [5] }} ),
        ( 'Read Tag Trip x 2',		{ 'path': path( 'Trip' ), 'read_tag': { 'elements': 2 }} ),
        ( 'Read Tag @0x66/1/20 x 2',	{ 'path': path( '@0x66/1/20' ), 'read_tag': { 'elements': 2 }} ) ]:
    try:
        rpy			= transact( MR, request )
    except Exception as exc:
        print( "%-24s: NO REPLY, %s: %s" % ( what, type( exc ).__name__, str( exc )[:100] ))
        bad.append( "%s: no reply, %s raised; expected status 0 (or at least an error status)" % ( what, type( exc ).__name__ ))
        continue
    print( "%-24s: status 0x%02x %r" % ( what, rpy.status, rpy.get( 'read_tag.data' )))
    if rpy.status != 0 or ( 'read_tag' in request and list( rpy.read_tag.data ) != [0,5] ):
        bad.append( "%s: status 0x%02x data %r; expected status 0%s" % (
            what, rpy.status, rpy.get( 'read_tag.data' ), " and [0, 5]" if 'read_tag' in request else "" ))

if bad:
    print( "CONTRADICTION (C03: a tag bound to an explicit class/instance/attribute address is served by Read/Write Tag):" )
    for b in bad:
        print( "  " + b )
    sys.exit( 1 )
print( "OK" )
