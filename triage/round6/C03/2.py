"""C03 contradiction 2 (unchanged code): Get Attribute Single / Set Attribute Single cannot address a tag by its
symbolic name.

The property lets a tag be read "whether addressed by symbolic name or by its class/instance/attribute address and whether
by Read Tag, Read Tag Fragmented or Get Attribute Single".  Object.request resolves the path ( device.resolve knows the
symbol table, and the request IS routed to the right Object ), but then insists that the LAST PATH SEGMENT is an
{'attribute': n} segment:

    assert 'attribute' in data.path['segment'][-1], "... path must identify Attribute"
    a_id = data.path['segment'][-1]['attribute']

so  Get Attribute Single  path=[symbolic "Temps"]  is answered with status 0x08 (Service not supported), although the
symbol table maps Temps to class 2, instance 1, attribute 1, and  @2/1/1  works.   Set Attribute Single likewise.

Expected: the attribute number is taken from the resolved address ( device.resolve( data.path, attribute=True ) ), and both
views return / change the same elements.
"""
import struct
import sys
import logging

import cpppo
from cpppo.server.enip import device, logix, parser

logging.disable( logging.CRITICAL )


def setup( specs ):
    """specs: ( name, type, default, "@cls/ins/att" or None ) ...; returns the Logix Message Router"""
    device.lookup_reset()
    logix.setup_reset()
    tags			= cpppo.dotdict()
    for name,typ,default,addr in specs:
        ent			= cpppo.dotdict()
        ent.attribute		= device.Attribute( name, typ, default=default )
        ent.path		= {"segment": device.parse_path( addr )} if addr else None
        ent.error		= 0
        dict.__setitem__( tags, name, ent )
    logix.setup( tags=tags )
    return device.lookup( 0x02, 1 )


def transact( MR, request ):
    """Encode the request, let the Message Router parse and process it, and decode its reply"""
    encoded			= logix.Logix.produce( cpppo.dotdict( request ))
    data			= cpppo.dotdict()
    with MR.parser as machine:
        for _ in machine.run( source=cpppo.peekable( bytes( encoded )), data=data ):
            pass
    MR.request( data )
    reply			= cpppo.dotdict()
    with MR.parser as machine:
        for _ in machine.run( source=cpppo.peekable( bytes( data.input )), data=reply ):
            pass
    return reply


def path( text ):
    return {"segment": device.parse_path( text )}


MR				= setup( [ ( 'Temps', parser.INT, [0]*4, None ), ( 'Flow', parser.REAL, [0.0]*2, '@0x99/3/7' ) ] )
bad				= []

wr				= transact( MR, { 'path': path( 'Temps[1]' ), 'write_tag': { 'type': parser.INT.tag_type, 'data': [258, -2] }} )
assert wr.status == 0, wr
wr				= transact( MR, { 'path': path( 'Flow' ), 'write_tag': { 'type': parser.REAL.tag_type, 'data': [1.5, -2.0] }} )
assert wr.status == 0, wr

for tag,typ,expect in [ ( 'Temps', parser.INT, [0,258,-2,0] ), ( 'Flow', parser.REAL, [1.5,-2.0] ) ]:
    cls,ins,att			= device.resolve_tag( tag )
    numeric			= transact( MR, { 'path': path( '@%d/%d/%d' % ( cls, ins, att )), 'get_attribute_single': True } )
    assert numeric.status == 0, numeric
    values			= [ struct.unpack( typ.struct_format, bytes( bytearray( numeric.get_attribute_single.data[i:i+typ.struct_calcsize] )))[0]
                                    for i in range( 0, len( numeric.get_attribute_single.data ), typ.struct_calcsize ) ]
    assert values == expect, ( values, expect )
    symbolic			= transact( MR, { 'path': path( tag ), 'get_attribute_single': True } )
    print( "%-5s --> @%d/%d/%d: Get Attribute Single by address: status 0x%02x %r; by name: status 0x%02x %r" % (
        tag, cls, ins, att, numeric.status, values, symbolic.status, symbolic.get( 'get_attribute_single.data' )))
    if symbolic.status != 0 or symbolic.get( 'get_attribute_single.data' ) != numeric.get_attribute_single.data:
        bad.append( "Get Attribute Single %r: status 0x%02x, data %r; expected status 0 and the %d bytes of %r" % (
            tag, symbolic.status, symbolic.get( 'get_attribute_single.data' ), len( numeric.get_attribute_single.data ), expect ))

# Set Attribute Single by name
raw				= list( bytearray( b''.join( parser.INT.produce( v ) for v in [1,2,3,4] )))
sas				= transact( MR, { 'path': path( 'Temps' ), 'set_attribute_single': { 'data': raw }} )
now				= list( transact( MR, { 'path': path( 'Temps' ), 'read_tag': { 'elements': 4 }} ).read_tag.data )
print( "Set Attribute Single 'Temps' <= [1,2,3,4]: status 0x%02x; Read Tag now returns %r" % ( sas.status, now ))
if sas.status != 0 or now != [1,2,3,4]:
    bad.append( "Set Attribute Single 'Temps': status 0x%02x, tag now %r; expected status 0 and [1, 2, 3, 4]" % ( sas.status, now ))

if bad:
    print( "CONTRADICTION (C03: symbolic and numeric addressing are equivalent for Get/Set Attribute Single too):" )
    for b in bad:
        print( "  " + b )
    sys.exit( 1 )
print( "OK" )
