#!/usr/bin/env python
"""
C18 defect 4: of a plain file and its compressed copy present together, reader.open selects the
compressed copy -- also while that copy is still being written.

Input:    rotated files plant.hst.2, plant.hst.1 and plant.hst; plant.hst.1 is just being compressed, so
          plant.hst.1 ( complete ) and plant.hst.1.gz ( the first part of the stream only ) exist together,
          the state reader.open's documentation describes as "blah.hst.1  # < being compressed".
          Replay from before the first record ( so plant.hst.1* is reached by a switch 'after' plant.hst.2 ).
Expected: "If a duplicate file (eg. blah.hst.1 and blah.hst.1.gz ) is detected, the earlier (uncompressed)
          is preferred, addressing potential issues with using a file currently being compressed": the file
          selected after plant.hst.2 is plant.hst.1, and every record is delivered exactly once.
Observed: the file selected is plant.hst.1.gz; the replay then runs into the end of the incomplete stream
          ( and, see defect 3, never returns; were that repaired, the records of plant.hst.1 behind that
          point would still be lost, because plant.hst.1 starts before the position reached ).

Cause: in reader.open the candidates are visited in natural order ( '.1' before '.1.gz' ) and for
'after=True' every accepted candidate is stacked on 'opened', the LAST one being the winner: of two files
with the same first timestamp the later name, ie. the compressed copy, wins.  ( For 'after=False' the loop
breaks at the first match, so there the plain file wins. )
Repair: when a candidate's first record equals that of the candidate stacked just before it and its name
extends that candidate's name ( '.1' -> '.1.gz' ), close it and keep the earlier one.
"""

# ---- helpers ( the same in every defect program ) ----------------------------------------
from __future__ import print_function
import logging
import os
import signal

from cpppo.history import files as hfiles
from cpppo.history import logger, loader, reader, opener, timestamp

logging.basicConfig( level=logging.ERROR )

class Clock( object ):
    """Replaces the wall clock seen by history.files (reader.advance, reader.open pacing)"""
    def __init__( self, now=5000.0 ):
        self.now		= now
        hfiles.timer		= self
    def __call__( self ):
        return self.now

def write_files( base, contents ):
    """contents: [ [ (ts, {reg: val}), ... ], ... ] oldest file first; the newest gets no extension"""
    paths			= []
    for i,recs in enumerate( contents ):
        age			= len( contents ) - 1 - i
        path			= base + ( '.%d' % age if age else '' )
        with logger( path ) as l:
            for ts,vals in recs:
                l.write( vals, now=ts )
        paths.append( path )
    return paths

def compress( path, kind, keep=False ):
    with opener( path + '.' + kind, mode='wb' ) as fd:
        with open( path, 'rb' ) as rd:
            fd.write( rd.read() )
    if not keep:
        os.unlink( path )
    return path + '.' + kind

class Hang( BaseException ):
    """Not an Exception: passes thru every 'except Exception' of the code under test"""

def alarm( seconds ):
    def handler( signum, frame ):
        raise Hang( "no return within %ss" % seconds )
    signal.signal( signal.SIGALRM, handler )
    signal.alarm( seconds )

def replay( clock, base, start, walls, factor=1.0, lookahead=None, **kwds ):
    """Create a loader at wall-clock walls[0] with the historical clock at 'start', load() at each of the
    wall-clock times; returns loader, [ (wall, [events]) ]"""
    clock.now			= walls[0]
    ld				= loader( base, historical=start, basis=walls[0], factor=factor, lookahead=lookahead )
    out				= []
    for w in walls:
        clock.now		= w
        if not ld:
            break
        cur,evs			= ld.load( **kwds )
        out.append( (w, evs) )
    return ld,out

# ---- the demonstration -------------------------------------------------------------------
import random, shutil, sys, tempfile

t0			= 1700000000.0
d			= tempfile.mkdtemp( prefix='c18_defect4_' )
try:
    base		= os.path.join( d, 'plant.hst' )
    rnd			= random.Random( 18 )
    first		= [ ( t0 + i, { "40001": i } ) for i in range( 3 ) ]
    middle		= [ ( t0 + 10.0 + i * 0.01, dict( ( str( 40001 + r ), rnd.randint( 0, 65535 )) for r in range( 16 )))
                            for i in range( 3000 ) ]
    newest		= [ ( t0 + 100.0 + i, { "40001": i } ) for i in range( 3 ) ]
    paths		= write_files( base, [ first, middle, newest ] )
    gz			= compress( paths[1], 'gz', keep=True )
    with open( gz, 'rb' ) as f:
        data		= f.read()
    with open( gz, 'wb' ) as f:
        f.write( data[:len( data ) // 2] )			# the compressor has got half way

    # 1. Which file does reader.open select after the last record of plant.hst.2 ?
    clock		= Clock()
    rd			= reader( base, historical=t0 + 1000.0, basis=clock.now )
    gen			= rd.open( target=timestamp( first[-1][0] ), after=True, strict=False )
    (f,n,cur),(ts,js)	= next( gen )
    gen.close()
    print( "after plant.hst.2, reader.open selects plant.hst%s" % f )
    failed		= []
    if f != '.1':
        failed.append( "reader.open selected plant.hst%s, expected the uncompressed plant.hst.1" % f )

    # 2. The replay
    alarm( 20 )
    try:
        ld,out		= replay( clock, base, start=t0 - 1.0, walls=[ 5000.0, 5200.0, 5201.0, 5202.0 ] )
        alarm( 0 )
        got		= [ ( str( e['timestamp'] ), e['values'] ) for w,evs in out for e in evs ]
        expect		= [ ( str( timestamp( ts )), vals ) for ts,vals in first + middle + newest ]
        print( "delivered %d of %d records" % ( len( got ), len( expect )))
        if got != expect:
            failed.append( "delivered %d records, expected all %d once and in order" % ( len( got ), len( expect )))
    except Hang as exc:
        failed.append( "loader.load() did not return ( %s ); expected all %d records" % (
            exc, len( first + middle + newest )))
    if failed:
        for msg in failed:
            print( "FAILED: " + msg )
        sys.exit( 1 )
    print( "OK" )
finally:
    shutil.rmtree( d, ignore_errors=True )
