#!/usr/bin/env python
"""
C18 defect 5: a history logged to a bare file name ( no directory part ) cannot be replayed.

Input:    logger( 'plant.hst' ) -- a path relative to the current directory, which the logger accepts
          ( it only creates the directory if the path has one ) -- writes three records; the same path is
          given to loader().
Expected: the three records are delivered, as they are for './plant.hst' or an absolute path.
Observed: the first load() puts the loader into FAILED ( "Playback failed: [Errno 2] No such file or
          directory: ''" ); no record is ever delivered.

Cause: reader.__init__ takes self.dirs = os.path.dirname( path ), which is '' for a bare name, and
reader.open calls os.listdir( self.dirs ); os.listdir( '' ) raises FileNotFoundError.
Repair: os.listdir( self.dirs or '.' )  ( or os.path.dirname( os.path.abspath( path )) in __init__ ).
"""

# ---- helpers ( the same in every defect program ) ----------------------------------------
from __future__ import print_function
import logging
import os
import signal

from cpppo.history import files as hfiles
from cpppo.history import logger, loader, reader, opener, timestamp

logging.basicConfig( level=logging.ERROR )

class Clock( object ):
    """Replaces the wall clock seen by history.files (reader.advance, reader.open pacing)"""
    def __init__( self, now=5000.0 ):
        self.now		= now
        hfiles.timer		= self
    def __call__( self ):
        return self.now

def write_files( base, contents ):
    """contents: [ [ (ts, {reg: val}), ... ], ... ] oldest file first; the newest gets no extension"""
    paths			= []
    for i,recs in enumerate( contents ):
        age			= len( contents ) - 1 - i
        path			= base + ( '.%d' % age if age else '' )
        with logger( path ) as l:
            for ts,vals in recs:
                l.write( vals, now=ts )
        paths.append( path )
    return paths

def compress( path, kind, keep=False ):
    with opener( path + '.' + kind, mode='wb' ) as fd:
        with open( path, 'rb' ) as rd:
            fd.write( rd.read() )
    if not keep:
        os.unlink( path )
    return path + '.' + kind

class Hang( BaseException ):
    """Not an Exception: passes thru every 'except Exception' of the code under test"""

def alarm( seconds ):
    def handler( signum, frame ):
        raise Hang( "no return within %ss" % seconds )
    signal.signal( signal.SIGALRM, handler )
    signal.alarm( seconds )

def replay( clock, base, start, walls, factor=1.0, lookahead=None, **kwds ):
    """Create a loader at wall-clock walls[0] with the historical clock at 'start', load() at each of the
    wall-clock times; returns loader, [ (wall, [events]) ]"""
    clock.now			= walls[0]
    ld				= loader( base, historical=start, basis=walls[0], factor=factor, lookahead=lookahead )
    out				= []
    for w in walls:
        clock.now		= w
        if not ld:
            break
        cur,evs			= ld.load( **kwds )
        out.append( (w, evs) )
    return ld,out

# ---- the demonstration -------------------------------------------------------------------
import shutil, sys, tempfile

t0			= 1700000000.0
d			= tempfile.mkdtemp( prefix='c18_defect5_' )
cwd			= os.getcwd()
try:
    os.chdir( d )
    logged		= [ ( t0 + i, { "40001": i } ) for i in range( 3 ) ]
    failed		= []
    for path in ( './plant.hst', 'plant.hst' ):
        write_files( path, [ logged ] ) if path.startswith( './' ) else None	# same file, written once
        clock		= Clock()
        ld,out		= replay( clock, path, start=t0 - 1.0, walls=[ 5000.0, 5010.0, 5011.0 ] )
        got		= [ ( str( e['timestamp'] ), e['values'] ) for w,evs in out for e in evs ]
        print( "loader( %-13r ): delivered %d of %d records, state %s" % (
            path, len( got ), len( logged ), ld.statename[ld.state] ))
        if got != [ ( str( timestamp( ts )), vals ) for ts,vals in logged ]:
            failed.append( "loader( %r ) delivered %r, state %s; expected the %d records logged" % (
                path, got, ld.statename[ld.state], len( logged )))
    if failed:
        for msg in failed:
            print( "FAILED: " + msg )
        sys.exit( 1 )
    print( "OK" )
finally:
    os.chdir( cwd )
    shutil.rmtree( d, ignore_errors=True )
