#!/usr/bin/env python
"""
C18 defect 2: a file that begins at the timestamp at which the previous single-timestamp file ended is
never replayed.

Input:    three rotated files.  The oldest holds two records, the middle one holds only its initial frame
          at 12.000 ( a logger that was restarted at once ), and the newest starts -- in the same millisecond,
          12.000 -- with its own initial frame, followed by two more records.  Equal timestamps are legal
          ( the loader accepts ts >= the previous ts everywhere else ).
Expected: all 6 records are delivered once, in order; the final register map holds the last values logged.
Observed: the replay ends ( COMPLETE ) after the middle file; the 3 records of the newest file are never
          delivered and the register map is left at the middle file's values.

Cause: loader.load keeps _strict set until a file shows increasing timestamps, and reader.open( after=True,
strict=True ) then demands 'ts > target' of the next file's first record: a file whose first record carries
the same timestamp as the loader's position cannot be told from the file just played and is rejected --
together with all of its later records.  With a still newer file present the search silently settles on
that one instead, so the loss does not even end the replay.
Repair ( sketch ): identify the file just played by something other than its first timestamp -- eg. let
the loader hand reader.open the ( timestamp, serial, payload ) of the first line of the files it played at
the current position and have open skip exactly those, comparing with '>=' otherwise.
"""

# ---- helpers ( the same in every defect program ) ----------------------------------------
from __future__ import print_function
import logging
import os
import signal

from cpppo.history import files as hfiles
from cpppo.history import logger, loader, reader, opener, timestamp

logging.basicConfig( level=logging.ERROR )

class Clock( object ):
    """Replaces the wall clock seen by history.files (reader.advance, reader.open pacing)"""
    def __init__( self, now=5000.0 ):
        self.now		= now
        hfiles.timer		= self
    def __call__( self ):
        return self.now

def write_files( base, contents ):
    """contents: [ [ (ts, {reg: val}), ... ], ... ] oldest file first; the newest gets no extension"""
    paths			= []
    for i,recs in enumerate( contents ):
        age			= len( contents ) - 1 - i
        path			= base + ( '.%d' % age if age else '' )
        with logger( path ) as l:
            for ts,vals in recs:
                l.write( vals, now=ts )
        paths.append( path )
    return paths

def compress( path, kind, keep=False ):
    with opener( path + '.' + kind, mode='wb' ) as fd:
        with open( path, 'rb' ) as rd:
            fd.write( rd.read() )
    if not keep:
        os.unlink( path )
    return path + '.' + kind

class Hang( BaseException ):
    """Not an Exception: passes thru every 'except Exception' of the code under test"""

def alarm( seconds ):
    def handler( signum, frame ):
        raise Hang( "no return within %ss" % seconds )
    signal.signal( signal.SIGALRM, handler )
    signal.alarm( seconds )

def replay( clock, base, start, walls, factor=1.0, lookahead=None, **kwds ):
    """Create a loader at wall-clock walls[0] with the historical clock at 'start', load() at each of the
    wall-clock times; returns loader, [ (wall, [events]) ]"""
    clock.now			= walls[0]
    ld				= loader( base, historical=start, basis=walls[0], factor=factor, lookahead=lookahead )
    out				= []
    for w in walls:
        clock.now		= w
        if not ld:
            break
        cur,evs			= ld.load( **kwds )
        out.append( (w, evs) )
    return ld,out

# ---- the demonstration -------------------------------------------------------------------
import shutil, sys, tempfile

t0			= 1700000000.0
d			= tempfile.mkdtemp( prefix='c18_defect2_' )
try:
    base		= os.path.join( d, 'plant.hst' )
    files		= [
        [ ( t0 + 10.0, { "40001": 1, "40002": 1 } ), ( t0 + 11.0, { "40001": 2 } ) ],
        [ ( t0 + 12.0, { "40001": 3, "40002": 3 } ) ],
        [ ( t0 + 12.0, { "40001": 4, "40002": 4 } ), ( t0 + 13.0, { "40001": 5 } ), ( t0 + 14.0, { "40002": 6 } ) ],
    ]
    write_files( base, files )
    clock		= Clock()
    ld,out		= replay( clock, base, start=t0, walls=[ 5000.0 + s for s in range( 0, 30, 2 ) ] )
    got			= [ ( str( e['timestamp'] ), e['values'] ) for w,evs in out for e in evs ]
    expect		= [ ( str( timestamp( ts )), vals ) for recs in files for ts,vals in recs ]
    final		= dict( ( r, v ) for r,(t,v) in ld.values.items() )
    print( "delivered %d of %d records, state %s, final map %r" % (
        len( got ), len( expect ), ld.statename[ld.state], final ))
    for g in got:
        print( "  %s %r" % g )
    if got != expect or final != { 40001: 5, 40002: 6 }:
        print( "FAILED: expected all %d records and the final map {40001: 5, 40002: 6}; never delivered: %r" % (
            len( expect ), [ e for e in expect if e not in got ] ))
        sys.exit( 1 )
    print( "OK" )
finally:
    shutil.rmtree( d, ignore_errors=True )
