#!/usr/bin/env python
"""
C18 defect 8: the replay of one history takes in the files of another history whose name merely begins
with the same characters.

Input:    two loggers write into one directory: 'unit1' ( rotated: unit1.1, unit1 ) and 'unit10'
          ( unit10.1, unit10 ), different registers, interleaved times.  loader( '<dir>/unit1' ) replays.
Expected: the 4 records logged to unit1 / unit1.1, once each, in order; the final register map holds
          unit1's registers only.
Observed: records of unit10 are delivered as part of unit1's history ( and records of unit1 are skipped as
          the position jumps between the two series ).

Cause: reader.open lists the candidates with  n.startswith( self.name )  and takes whatever follows the
name as "the extension": for 'unit1' that admits 'unit10' ( extension '0' ) and 'unit10.1' ( '0.1' ).
Repair: accept a directory entry only if it is the name itself or continues with the separator the
rotation scheme uses:  n == self.name or n.startswith( self.name + '.' ).
"""

# ---- helpers ( the same in every defect program ) ----------------------------------------
from __future__ import print_function
import logging
import os
import signal

from cpppo.history import files as hfiles
from cpppo.history import logger, loader, reader, opener, timestamp

logging.basicConfig( level=logging.ERROR )

class Clock( object ):
    """Replaces the wall clock seen by history.files (reader.advance, reader.open pacing)"""
    def __init__( self, now=5000.0 ):
        self.now		= now
        hfiles.timer		= self
    def __call__( self ):
        return self.now

def write_files( base, contents ):
    """contents: [ [ (ts, {reg: val}), ... ], ... ] oldest file first; the newest gets no extension"""
    paths			= []
    for i,recs in enumerate( contents ):
        age			= len( contents ) - 1 - i
        path			= base + ( '.%d' % age if age else '' )
        with logger( path ) as l:
            for ts,vals in recs:
                l.write( vals, now=ts )
        paths.append( path )
    return paths

def compress( path, kind, keep=False ):
    with opener( path + '.' + kind, mode='wb' ) as fd:
        with open( path, 'rb' ) as rd:
            fd.write( rd.read() )
    if not keep:
        os.unlink( path )
    return path + '.' + kind

class Hang( BaseException ):
    """Not an Exception: passes thru every 'except Exception' of the code under test"""

def alarm( seconds ):
    def handler( signum, frame ):
        raise Hang( "no return within %ss" % seconds )
    signal.signal( signal.SIGALRM, handler )
    signal.alarm( seconds )

def replay( clock, base, start, walls, factor=1.0, lookahead=None, **kwds ):
    """Create a loader at wall-clock walls[0] with the historical clock at 'start', load() at each of the
    wall-clock times; returns loader, [ (wall, [events]) ]"""
    clock.now			= walls[0]
    ld				= loader( base, historical=start, basis=walls[0], factor=factor, lookahead=lookahead )
    out				= []
    for w in walls:
        clock.now		= w
        if not ld:
            break
        cur,evs			= ld.load( **kwds )
        out.append( (w, evs) )
    return ld,out

# ---- the demonstration -------------------------------------------------------------------
import shutil, sys, tempfile

t0			= 1700000000.0
d			= tempfile.mkdtemp( prefix='c18_defect8_' )
try:
    unit1		= [ [ ( t0 + 0.0, { "40001": 1 } ), ( t0 + 2.0, { "40001": 2 } ) ],
                            [ ( t0 + 4.0, { "40001": 3 } ), ( t0 + 6.0, { "40001": 4 } ) ] ]
    unit10		= [ [ ( t0 + 1.0, { "50001": 91 } ), ( t0 + 3.0, { "50001": 92 } ) ],
                            [ ( t0 + 5.0, { "50001": 93 } ), ( t0 + 7.0, { "50001": 94 } ) ] ]
    write_files( os.path.join( d, 'unit1' ), unit1 )
    write_files( os.path.join( d, 'unit10' ), unit10 )
    clock		= Clock()
    ld,out		= replay( clock, os.path.join( d, 'unit1' ), start=t0 - 1.0,
                                  walls=[ 5000.0 + s for s in range( 0, 20 ) ] )
    got			= [ ( str( e['timestamp'] ), e['values'] ) for w,evs in out for e in evs ]
    expect		= [ ( str( timestamp( ts )), vals ) for recs in unit1 for ts,vals in recs ]
    final		= dict( ( r, v ) for r,(t,v) in ld.values.items() )
    print( "replay of 'unit1' delivered:" )
    for g in got:
        print( "  %s %r" % g )
    print( "final map %r" % ( final, ))
    if got != expect or final != { 40001: 4 }:
        print( "FAILED: expected exactly the records of unit1.1 + unit1 %r and the final map {40001: 4}" % (
            [ e[1] for e in expect ], ))
        sys.exit( 1 )
    print( "OK" )
finally:
    shutil.rmtree( d, ignore_errors=True )
