#!/usr/bin/env python
"""
C18 defect 3: a compressed history file whose stream is cut short makes loader.load() spin forever.

Input:    two rotated files; the older one exists only as plant.hst.1.gz ( .bz2 behaves the same ) and its
          compressed stream ends early -- the disk filled up, or the compressor was killed, during rotation.
          About two thirds of its records can still be decompressed.  The newest file is intact.
          Replay from before the first record, the clock then moves past the end of the history.
Expected: load() returns.  The records that can be read from the damaged file are delivered, the unreadable
          rest is given up ( it is "corrupt records after the initial frame" ), and the records of the
          newest file are delivered: nothing around the damage is lost.
Observed: load() never returns; it logs 'Playback skipping plant.hst.1.gz, line N: Compressed file ended
          before the end-of-stream marker was reached' with ever increasing N, at full CPU.

Cause: the handler added to reader.open for lines that cannot be parsed ( 'except Exception: ... ts,js =
None,None' around parse_record ) also catches the EOFError ( OSError for other I/O failures ) that the
decompressor raises from 'for l in fd'.  That is not a property of one consumed line but of the stream:
every further parse_record raises it again, open yields ( None, None ) without end, and loader.load
'continue's without end.
Repair: treat a failure of the stream itself as the end of the file, eg.
    except ( EOFError, EnvironmentError ) as exc:   # before 'except Exception'
        log.warning( ... ); break
so that the loader goes SWITCHING and carries on with the next file.
"""

# ---- helpers ( the same in every defect program ) ----------------------------------------
from __future__ import print_function
import logging
import os
import signal

from cpppo.history import files as hfiles
from cpppo.history import logger, loader, reader, opener, timestamp

logging.basicConfig( level=logging.ERROR )

class Clock( object ):
    """Replaces the wall clock seen by history.files (reader.advance, reader.open pacing)"""
    def __init__( self, now=5000.0 ):
        self.now		= now
        hfiles.timer		= self
    def __call__( self ):
        return self.now

def write_files( base, contents ):
    """contents: [ [ (ts, {reg: val}), ... ], ... ] oldest file first; the newest gets no extension"""
    paths			= []
    for i,recs in enumerate( contents ):
        age			= len( contents ) - 1 - i
        path			= base + ( '.%d' % age if age else '' )
        with logger( path ) as l:
            for ts,vals in recs:
                l.write( vals, now=ts )
        paths.append( path )
    return paths

def compress( path, kind, keep=False ):
    with opener( path + '.' + kind, mode='wb' ) as fd:
        with open( path, 'rb' ) as rd:
            fd.write( rd.read() )
    if not keep:
        os.unlink( path )
    return path + '.' + kind

class Hang( BaseException ):
    """Not an Exception: passes thru every 'except Exception' of the code under test"""

def alarm( seconds ):
    def handler( signum, frame ):
        raise Hang( "no return within %ss" % seconds )
    signal.signal( signal.SIGALRM, handler )
    signal.alarm( seconds )

def replay( clock, base, start, walls, factor=1.0, lookahead=None, **kwds ):
    """Create a loader at wall-clock walls[0] with the historical clock at 'start', load() at each of the
    wall-clock times; returns loader, [ (wall, [events]) ]"""
    clock.now			= walls[0]
    ld				= loader( base, historical=start, basis=walls[0], factor=factor, lookahead=lookahead )
    out				= []
    for w in walls:
        clock.now		= w
        if not ld:
            break
        cur,evs			= ld.load( **kwds )
        out.append( (w, evs) )
    return ld,out

# ---- the demonstration -------------------------------------------------------------------
import random, shutil, sys, tempfile

t0			= 1700000000.0
d			= tempfile.mkdtemp( prefix='c18_defect3_' )
try:
    base		= os.path.join( d, 'plant.hst' )
    rnd			= random.Random( 18 )
    older		= [ ( t0 + i * 0.01, dict( ( str( 40001 + r ), rnd.randint( 0, 65535 )) for r in range( 16 )))
                            for i in range( 3000 ) ]
    newer		= [ ( t0 + 100.0 + i, { "40001": i } ) for i in range( 3 ) ]
    paths		= write_files( base, [ older, newer ] )
    gz			= compress( paths[0], 'gz' )
    with open( gz, 'rb' ) as f:
        data		= f.read()
    with open( gz, 'wb' ) as f:
        f.write( data[:len( data ) * 2 // 3] )

    clock		= Clock()
    alarm( 20 )
    try:
        ld,out		= replay( clock, base, start=t0 - 1.0, walls=[ 5000.0, 5200.0, 5201.0, 5202.0 ] )
    except Hang as exc:
        print( "FAILED: loader.load() did not return ( %s ) while reading the truncated %s; expected the "
               "readable records of that file and the %d records of the newest file" % (
                   exc, os.path.basename( gz ), len( newer )))
        sys.exit( 1 )
    alarm( 0 )
    got			= [ ( str( e['timestamp'] ), e['values'] ) for w,evs in out for e in evs ]
    tail		= [ ( str( timestamp( ts )), vals ) for ts,vals in newer ]
    print( "delivered %d records, state %s" % ( len( got ), ld.statename[ld.state] ))
    if got[-len( tail ):] != tail or len( got ) < 1000:
        print( "FAILED: expected well over 1000 records of the damaged file, then %r; the last delivered were %r" % (
            tail, got[-3:] ))
        sys.exit( 1 )
    print( "OK" )
finally:
    shutil.rmtree( d, ignore_errors=True )
