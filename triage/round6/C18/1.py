#!/usr/bin/env python
"""
C18 defect 1: records one millisecond apart, one per file, are not all replayed.

Input:    a history of 12 rotated files holding one record each; consecutive records are exactly one
          millisecond apart ( strictly increasing timestamps, distinct in the "to the millisecond" text the
          logger writes ).  Replay from before the first record until long after the last.
Expected: all 12 records are delivered, once each, in order; the final register map holds the last values.
Observed: some of the files are passed over ( their record is never delivered ).

Cause: history.timestamp compares with a full millisecond of slack computed in floating point
( a > b  <=>  a.value - 0.001 > b.value ): for about 70% of all pairs of instants that are exactly 1 ms
apart neither a < b nor a > b holds, although str( a ) != str( b ) -- contrary to the class' own promise
that numeric and string comparison agree.  After a file with a single timestamp the loader opens the next
file 'strictly after' its position, so a file that starts 1 ms later fails the 'ts > target' test of
reader.open and is rejected; the search then settles on the file after it.
Repair: compare the instants rounded to the precision, eg. in timestamp.__lt__/__gt__:
    round( self.value, self._precision ) < round( rhs.value, self._precision )
"""

# ---- helpers ( the same in every defect program ) ----------------------------------------
from __future__ import print_function
import logging
import os
import signal

from cpppo.history import files as hfiles
from cpppo.history import logger, loader, reader, opener, timestamp

logging.basicConfig( level=logging.ERROR )

class Clock( object ):
    """Replaces the wall clock seen by history.files (reader.advance, reader.open pacing)"""
    def __init__( self, now=5000.0 ):
        self.now		= now
        hfiles.timer		= self
    def __call__( self ):
        return self.now

def write_files( base, contents ):
    """contents: [ [ (ts, {reg: val}), ... ], ... ] oldest file first; the newest gets no extension"""
    paths			= []
    for i,recs in enumerate( contents ):
        age			= len( contents ) - 1 - i
        path			= base + ( '.%d' % age if age else '' )
        with logger( path ) as l:
            for ts,vals in recs:
                l.write( vals, now=ts )
        paths.append( path )
    return paths

def compress( path, kind, keep=False ):
    with opener( path + '.' + kind, mode='wb' ) as fd:
        with open( path, 'rb' ) as rd:
            fd.write( rd.read() )
    if not keep:
        os.unlink( path )
    return path + '.' + kind

class Hang( BaseException ):
    """Not an Exception: passes thru every 'except Exception' of the code under test"""

def alarm( seconds ):
    def handler( signum, frame ):
        raise Hang( "no return within %ss" % seconds )
    signal.signal( signal.SIGALRM, handler )
    signal.alarm( seconds )

def replay( clock, base, start, walls, factor=1.0, lookahead=None, **kwds ):
    """Create a loader at wall-clock walls[0] with the historical clock at 'start', load() at each of the
    wall-clock times; returns loader, [ (wall, [events]) ]"""
    clock.now			= walls[0]
    ld				= loader( base, historical=start, basis=walls[0], factor=factor, lookahead=lookahead )
    out				= []
    for w in walls:
        clock.now		= w
        if not ld:
            break
        cur,evs			= ld.load( **kwds )
        out.append( (w, evs) )
    return ld,out

# ---- the demonstration -------------------------------------------------------------------
import shutil, sys, tempfile

t0			= 1700000000.0
count			= 12
d			= tempfile.mkdtemp( prefix='c18_defect1_' )
try:
    base		= os.path.join( d, 'plant.hst' )
    logged		= [ ( t0 + i / 1000.0, { "40001": i, str( 40100 + i ): i } ) for i in range( count ) ]
    write_files( base, [ [ rec ] for rec in logged ] )

    # The root cause, seen directly
    texts		= [ str( timestamp( ts )) for ts,_ in logged ]
    parsed		= [ timestamp( s ) for s in texts ]
    fuzzy		= [ ( texts[i], texts[i+1] ) for i in range( count - 1 )
                            if texts[i] < texts[i+1] and not ( parsed[i] < parsed[i+1] ) ]
    for a,b in fuzzy:
        print( "timestamp( %r ) < timestamp( %r ) is False, although the texts differ" % ( a, b ))

    clock		= Clock()
    ld,out		= replay( clock, base, start=t0 - 1.0, walls=[ 5000.0, 5000.5, 5002.0, 5003.0, 5004.0 ] )
    got			= [ ( str( e['timestamp'] ), e['values'] ) for w,evs in out for e in evs ]
    expect		= [ ( str( timestamp( ts )), vals ) for ts,vals in logged ]
    final		= sorted( ld.values )
    print( "delivered %d of %d records: %s" % ( len( got ), count, [ g[0][-6:] for g in got ] ))
    missing		= [ e[0] for e in expect if e not in got ]
    if got != expect:
        print( "FAILED: expected every record once, in order; never delivered: %s" % ( missing, ))
        sys.exit( 1 )
    print( "OK" )
finally:
    shutil.rmtree( d, ignore_errors=True )
