#!/usr/bin/env python
"""
C18 defect 6: with look-ahead, records whose time has come are not applied to the register map while the
loader waits for a later record.

Input:    one file with records at +1 s, +5 s and +100 s; loader( lookahead=10 ), factor 1, started at +0 s;
          load() is called at +0, +6, +50, +89, +90, +100 s.
Expected: load() "Load[s] values up to the current historical timestamp ... into self.values": after the
          load at +6 s ( and certainly at +50 s, whose return value says 'loaded up to +50 s' ) the register
          map holds the value logged at +5 s -- no later than the first load after the clock reached it.
Observed: the events for +1 s and +5 s are handed out at +0 s ( within the look-ahead, fine ), but the
          register map stays EMPTY until the load at +90 s; only when the +100 s record comes within the
          look-ahead are the two old records applied -- 85 s late.

Cause: in loader.load the queue of read-ahead records ( self.future ) is only drained at the bottom of the
loop body that processes a record; when reader.open reports 'next record is in the future' ( js is None )
the loader goes AWAITING and 'break's before that drain, at every load, for as long as the wait lasts.
Repair: drain self.future against the fresh 'cur' before leaving the loop for AWAITING ( move the
'while len( self.future ) and self.future[0][0] <= cur' block into a helper called on both paths ).
"""

# ---- helpers ( the same in every defect program ) ----------------------------------------
from __future__ import print_function
import logging
import os
import signal

from cpppo.history import files as hfiles
from cpppo.history import logger, loader, reader, opener, timestamp

logging.basicConfig( level=logging.ERROR )

class Clock( object ):
    """Replaces the wall clock seen by history.files (reader.advance, reader.open pacing)"""
    def __init__( self, now=5000.0 ):
        self.now		= now
        hfiles.timer		= self
    def __call__( self ):
        return self.now

def write_files( base, contents ):
    """contents: [ [ (ts, {reg: val}), ... ], ... ] oldest file first; the newest gets no extension"""
    paths			= []
    for i,recs in enumerate( contents ):
        age			= len( contents ) - 1 - i
        path			= base + ( '.%d' % age if age else '' )
        with logger( path ) as l:
            for ts,vals in recs:
                l.write( vals, now=ts )
        paths.append( path )
    return paths

def compress( path, kind, keep=False ):
    with opener( path + '.' + kind, mode='wb' ) as fd:
        with open( path, 'rb' ) as rd:
            fd.write( rd.read() )
    if not keep:
        os.unlink( path )
    return path + '.' + kind

class Hang( BaseException ):
    """Not an Exception: passes thru every 'except Exception' of the code under test"""

def alarm( seconds ):
    def handler( signum, frame ):
        raise Hang( "no return within %ss" % seconds )
    signal.signal( signal.SIGALRM, handler )
    signal.alarm( seconds )

def replay( clock, base, start, walls, factor=1.0, lookahead=None, **kwds ):
    """Create a loader at wall-clock walls[0] with the historical clock at 'start', load() at each of the
    wall-clock times; returns loader, [ (wall, [events]) ]"""
    clock.now			= walls[0]
    ld				= loader( base, historical=start, basis=walls[0], factor=factor, lookahead=lookahead )
    out				= []
    for w in walls:
        clock.now		= w
        if not ld:
            break
        cur,evs			= ld.load( **kwds )
        out.append( (w, evs) )
    return ld,out

# ---- the demonstration -------------------------------------------------------------------
import shutil, sys, tempfile

t0			= 1700000000.0
d			= tempfile.mkdtemp( prefix='c18_defect6_' )
try:
    base		= os.path.join( d, 'plant.hst' )
    write_files( base, [ [ ( t0 + 1.0, { "40001": 1 } ), ( t0 + 5.0, { "40001": 5 } ), ( t0 + 100.0, { "40001": 100 } ) ] ] )
    clock		= Clock()
    clock.now		= 5000.0
    ld			= loader( base, historical=t0, basis=5000.0, factor=1.0, lookahead=10.0 )
    failed		= []
    for offset,expect in ( (0.0, None), (6.0, 5), (50.0, 5), (89.0, 5), (90.0, 5), (100.0, 100) ):
        clock.now	= 5000.0 + offset
        cur,evs		= ld.load()
        value		= ld.values.get( 40001, (None,None) )[1]
        print( "load at +%5.1fs returns %s, events %r; register 40001 = %r ( state %s, %d queued )" % (
            offset, cur, [ e['values'] for e in evs ], value, ld.statename[ld.state], len( ld.future )))
        if value != expect:
            failed.append( "after the load at +%.0fs register 40001 is %r, expected %r" % ( offset, value, expect ))
    if failed:
        for msg in failed:
            print( "FAILED: " + msg )
        sys.exit( 1 )
    print( "OK" )
finally:
    shutil.rmtree( d, ignore_errors=True )
