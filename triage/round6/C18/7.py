#!/usr/bin/env python
"""
C18 defect 7: load( upcoming=T ) hands out events at and after T.

Input:    one file with records at +1 s, +5 s, +7 s and +9 s; the historical clock is already past all of them.
          load( upcoming=<+5 s> ) is called repeatedly, as in the loop loader.load's documentation gives.
Expected: "If an 'upcoming' timestamp is provided, no events >= this timestamp will be processed and
          returned (they will be stored in self.future 'til 'upcoming' is advanced)": the calls with
          upcoming=+5 s return the +1 s event only; the +5 s, +7 s and +9 s events are returned -- once --
          by later calls with a later ( or no ) 'upcoming'.
Observed: the first call returns the +1 s AND the +5 s event, the second call ( same upcoming ) returns
          +7 s, the third +9 s: every record is handed out although 'upcoming' never moved; only its
          application to the register map is withheld.  A caller that merges several loaders by
          'upcoming' ( the documented use ) receives the events out of order.

Cause: in loader.load the event is appended to 'events' ( and to self.future ) as soon as the record is
read; 'upcoming' is only consulted afterwards, in the loop that drains self.future into self.values, and
the early 'return upcoming,events' there carries the event that should have been held back.
Repair: consult 'upcoming' where the event is generated: queue ( ts, regs, event ) in self.future and
append the event to 'events' when the entry is drained, or hold back records with ts >= upcoming before
'events.append'.
"""

# ---- helpers ( the same in every defect program ) ----------------------------------------
from __future__ import print_function
import logging
import os
import signal

from cpppo.history import files as hfiles
from cpppo.history import logger, loader, reader, opener, timestamp

logging.basicConfig( level=logging.ERROR )

class Clock( object ):
    """Replaces the wall clock seen by history.files (reader.advance, reader.open pacing)"""
    def __init__( self, now=5000.0 ):
        self.now		= now
        hfiles.timer		= self
    def __call__( self ):
        return self.now

def write_files( base, contents ):
    """contents: [ [ (ts, {reg: val}), ... ], ... ] oldest file first; the newest gets no extension"""
    paths			= []
    for i,recs in enumerate( contents ):
        age			= len( contents ) - 1 - i
        path			= base + ( '.%d' % age if age else '' )
        with logger( path ) as l:
            for ts,vals in recs:
                l.write( vals, now=ts )
        paths.append( path )
    return paths

def compress( path, kind, keep=False ):
    with opener( path + '.' + kind, mode='wb' ) as fd:
        with open( path, 'rb' ) as rd:
            fd.write( rd.read() )
    if not keep:
        os.unlink( path )
    return path + '.' + kind

class Hang( BaseException ):
    """Not an Exception: passes thru every 'except Exception' of the code under test"""

def alarm( seconds ):
    def handler( signum, frame ):
        raise Hang( "no return within %ss" % seconds )
    signal.signal( signal.SIGALRM, handler )
    signal.alarm( seconds )

def replay( clock, base, start, walls, factor=1.0, lookahead=None, **kwds ):
    """Create a loader at wall-clock walls[0] with the historical clock at 'start', load() at each of the
    wall-clock times; returns loader, [ (wall, [events]) ]"""
    clock.now			= walls[0]
    ld				= loader( base, historical=start, basis=walls[0], factor=factor, lookahead=lookahead )
    out				= []
    for w in walls:
        clock.now		= w
        if not ld:
            break
        cur,evs			= ld.load( **kwds )
        out.append( (w, evs) )
    return ld,out

# ---- the demonstration -------------------------------------------------------------------
import shutil, sys, tempfile

t0			= 1700000000.0
d			= tempfile.mkdtemp( prefix='c18_defect7_' )
try:
    base		= os.path.join( d, 'plant.hst' )
    logged		= [ ( t0 + s, { "40001": int( s ) } ) for s in ( 1.0, 5.0, 7.0, 9.0 ) ]
    write_files( base, [ logged ] )
    clock		= Clock()
    clock.now		= 5000.0
    ld			= loader( base, historical=t0 + 60.0, basis=5000.0, factor=1.0 )
    upcoming		= timestamp( t0 + 5.0 )
    failed		= []
    early		= []
    for call in range( 3 ):
        cur,evs		= ld.load( upcoming=upcoming )
        print( "load( upcoming=%s ) returns %s, %r" % ( upcoming, cur, [ ( str( e['timestamp'] ), e['values'] ) for e in evs ] ))
        early	       += [ str( e['timestamp'] ) for e in evs if e['timestamp'] >= upcoming ]
    if early:
        failed.append( "with upcoming=%s the events %r were returned; expected none at or after it" % ( upcoming, early ))
    later		= []
    for call in range( 5 ):
        if not ld:
            break
        cur,evs		= ld.load()
        later	       += [ str( e['timestamp'] ) for e in evs ]
    print( "load() afterwards returns %r" % ( later, ))
    if failed:
        for msg in failed:
            print( "FAILED: " + msg )
        sys.exit( 1 )
    print( "OK" )
finally:
    shutil.rmtree( d, ignore_errors=True )
