"""C04 contradiction 2 (unchanged code): a Write Tag Fragmented whose byte offset falls inside an element is stored.

Read Tag Fragmented refuses a byte offset that is not a multiple of the element size ( 0xFF / 0x2105: "We don't
presently support ... a sub-element offset for basic data types" ).  Write Tag Fragmented computes the same
offremains in Logix.reply_elements but never looks at it: the offset is silently rounded down to the start of the
element, the data is stored there and the reply says 0x00.  A fragment at byte offset 3 of an INT tag ( 1.5 elements )
overwrites element 1; at byte offset 15 of a LINT range it overwrites the element at offset 8.  A writer whose offsets
do not tile the range is told all went well while other elements than the ones it addressed were changed.

Expected ( and exit 0 ): such a fragment is answered with a non-zero status and the tag is left untouched, as for reads.
"""
from __future__ import print_function
import sys
import logging

import cpppo
from cpppo.server import enip
from cpppo.server.enip import logix, parser, device

logging.getLogger().setLevel( logging.CRITICAL )

failures			= []
for typ,start,total,offset,values in (
        (parser.INT,   0, 10,  3, [111]),
        (parser.LINT,  2,  5, 15, [111, 222]),
        (parser.REAL,  0,  8,  6, [1.5, 2.5]),
):
    enip.lookup_reset()
    Obj				= logix.Logix( instance_id=1 )
    before			= [ 0.0 if typ is parser.REAL else i + 1 for i in range( 10 ) ]
    Obj.attribute['1'] = att	= device.Attribute( 'T', typ, default=list( before ))
    device.redirect_tag( 'T', {'class': Obj.class_id, 'instance': Obj.instance_id, 'attribute': 1} )

    # The same misaligned offset, read: refused
    rd				= cpppo.dotdict()
    rd.path			= {'segment': [ cpppo.dotdict( s ) for s in ({'symbolic': 'T'}, {'element': start}) ]}
    rd.read_frag		= {'elements': total, 'offset': offset}
    Obj.request( rd )

    wr				= cpppo.dotdict()
    wr.path			= {'segment': [ cpppo.dotdict( s ) for s in ({'symbolic': 'T'}, {'element': start}) ]}
    wr.write_frag		= {'elements': total, 'offset': offset, 'data': list( values ), 'type': typ.tag_type}
    enc				= Obj.produce( wr )
    data			= cpppo.dotdict()
    with Obj.parser as machine:
        for m,s in machine.run( source=cpppo.rememberable( enc ), data=data ):
            pass
    Obj.request( data )
    after			= list( att.value )
    print( "%-5s[%d] x %d, byte offset %2d ( element size %d ): read status 0x%02x; write status 0x%02x, tag %r" % (
        typ.__name__, start, total, offset, typ.struct_calcsize, rd.status, data.status, after ))
    if data.status == 0 or after != before:
        failures.append( "%s: write at byte offset %d ( not a multiple of %d ) answered 0x%02x and changed the tag from %r to %r; expected a refusal that stores nothing" % (
            typ.__name__, offset, typ.struct_calcsize, data.status, before, after ))

for f in failures:
    print( "CONTRADICTION:", f )
sys.exit( 1 if failures else 0 )
