"""C04 contradiction 1 (unchanged code): Write Tag Fragmented fragments of a narrower data type do not tile.

cpppo lets a Write Tag [Fragmented] carry a narrower integer type than the tag's ( e.g. SINT data into a DINT tag ).
The byte offset of a fragment counts the data that travelled before it: cpppo's own client checks a fragmented
write that way ( client.parse_operations: beg = offset // <size of the data type sent> ), but Logix.reply_elements
converts the offset with the size of the *tag's* element.  Two fragments that tile ten elements ( offsets 0 and 5,
five SINT values each ) are both answered with status 0x00, yet the second one lands on elements 1-5 instead of 5-9:
values written by the first fragment are overwritten, and elements 6-9 of the range are never written.

Expected ( and exit 0 ): after the two fragments the tag holds exactly the ten values in order, or a fragment that
cannot be placed is refused with a non-zero status and stores nothing.
"""
from __future__ import print_function
import sys
import logging

import cpppo
from cpppo.server import enip
from cpppo.server.enip import client, logix, parser, device

logging.getLogger().setLevel( logging.CRITICAL )

enip.lookup_reset()
Obj				= logix.Logix( instance_id=1 )
before				= [ -1 ] * 12
Obj.attribute['1'] = att	= device.Attribute( 'T', parser.DINT, default=list( before ))
device.redirect_tag( 'T', {'class': Obj.class_id, 'instance': Obj.instance_id, 'attribute': 1} )

# The two fragments, exactly as cpppo's client understands them: elements 0-4 and 5-9 of T[0-9].
tags				= [ 'T[0-9]+0=(SINT)100,101,102,103,104',
                                    'T[0-9]+5=(SINT)105,106,107,108,109' ]
operations			= list( client.parse_operations( tags, fragment=True ))	# passes the client's own range checks

statuses			= []
for op in operations:
    req				= cpppo.dotdict()
    req.path			= {'segment': [ cpppo.dotdict( s ) for s in op['path'] ]}
    req.write_frag		= {'elements': op['elements'], 'offset': op['offset'], 'data': op['data'], 'type': op['tag_type']}
    enc				= Obj.produce( req )
    data			= cpppo.dotdict()
    with Obj.parser as machine:
        for m,s in machine.run( source=cpppo.rememberable( enc ), data=data ):
            pass
    Obj.request( data )
    statuses.append( data.status )

expected			= list( range( 100, 110 )) + before[10:]
observed			= list( att.value )
print( "statuses of the two fragments:", statuses )
print( "observed tag:", observed )
print( "expected tag:", expected, "( or a refused fragment that stores nothing )" )

if all( s == 0 for s in statuses ):
    ok				= observed == expected
else:
    # A refusal is acceptable, if the refused fragment left no trace: only accepted fragments' values, in place.
    accepted			= list( before )
    for op,s in zip( operations, statuses ):
        if s == 0:
            beg			= op['offset']	# SINT: one byte per element sent
            accepted[beg:beg+len( op['data'] )] = op['data']
    ok				= observed == accepted
if not ok:
    print( "CONTRADICTION: both fragments accepted, but the range does not hold the values sent" )
    sys.exit( 1 )
print( "OK" )
