"""C04 contradiction 3 (unchanged code): Read Tag Fragmented cannot be used without routing encapsulation.

A client that talks to the simulator "simply" ( no Unconnected Send wrapper: route_path=False, send_path='', what
`python -m cpppo.server.enip.client -S` does ) can Read Tag, Write Tag and Write Tag Fragmented a range - but its
very first Read Tag Fragmented is answered with EtherNet/IP status 0x08 and the session is closed: the unwrapped
request begins with service code 0x52, and parser.unconnected_send selects its Unconnected Send machine on that
byte alone ( Unconnected Send is 0x52, too ), so the tag's EPATH / element count / offset are decoded as send path,
priority, ticks and length.  No element range at all can be moved with the fragmented read service this way; the same
request inside an Unconnected Send ( the default ) or a Multiple Service Packet works.

Expected ( and exit 0 ): the unrouted Read Tag Fragmented walks the range like the routed one does - 0x06 ... 0x00,
fragments within the budget, concatenation equal to the values written.
"""
from __future__ import print_function
import sys
import time
import logging
import threading

import cpppo
from cpppo.server import enip
from cpppo.server.enip import client, logix, parser
from cpppo.server.enip.main import main as enip_main

logging.getLogger().setLevel( logging.CRITICAL )

port				= 44818
control				= cpppo.apidict( enip.timeout, {'done': False} )
enip.lookup_reset()
server				= threading.Thread( target=enip_main, kwargs=dict(
    argv=[ '--address', 'localhost:%d' % port, 'A=INT[600]' ], server={'control': control} ))
server.daemon			= True
server.start()
time.sleep( 1 )

values				= [ ( i * 3 ) % 1000 for i in range( 500 ) ]
simple				= dict( route_path=False, send_path='' )
path				= [{'symbolic': 'A'}, {'element': 10}]


def one( conn, op ):
    (idx,dsc,req,rpy,sts,val),	= conn.synchronous( [ op ] )
    return rpy.status,val


def walk( conn, **kwds ):
    got,off			= [],0
    while True:
        sts,val			= one( conn, dict( method='read', path=path, elements=len( values ), offset=off, **kwds ))
        assert sts in (0x00, 0x06), "fragment at offset %d: status 0x%02x" % ( off, sts )
        assert 1 <= len( val ) <= logix.Logix.MAX_BYTES // 2, "fragment of %d elements" % len( val )
        got		       += list( val )
        off		       += 2 * len( val )
        if sts == 0x00:
            return got


result				= {}
try:
    with client.connector( host='localhost', port=port, timeout=5 ) as conn:
        # Unrouted Write Tag Fragmented ( two tiles ) and unrouted Read Tag work
        for off in (0, 300):
            sts,val		= one( conn, dict( method='write', path=path, elements=len( values ), offset=off * 2,
                                                   data=values[off:off+300], tag_type=parser.INT.tag_type, **simple ))
            assert sts == 0, "unrouted Write Tag Fragmented failed: 0x%02x" % sts
        sts,val			= one( conn, dict( method='read', path=path, elements=5, offset=None, **simple ))
        result['unrouted Read Tag']	= ( sts, val )
        result['routed Read Tag Fragmented walk'] = walk( conn ) == values
    with client.connector( host='localhost', port=port, timeout=5 ) as conn:
        try:
            result['unrouted Read Tag Fragmented walk'] = walk( conn, **simple ) == values
        except Exception as exc:
            result['unrouted Read Tag Fragmented walk'] = "failed: %s" % ( str( exc ).split( '\n' )[0][:120] )
finally:
    control.done		= True
    server.join( 5 )

for k in sorted( result ):
    print( "%-36s: %r" % ( k, result[k] ))
if result.get( 'unrouted Read Tag Fragmented walk' ) is not True:
    print( "CONTRADICTION: observed the unrouted Read Tag Fragmented refused ( session closed ); "
           "expected it to move the 500 elements like the routed one" )
    sys.exit( 1 )
print( "OK" )
