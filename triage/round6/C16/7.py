"""C16 defect 7: '..' directly after an indexed segment whose index expression contains a '.' does
not address the parent level.

_resolve performs the '..' back-tracking textually, before the bracket-balanced split: the component
to drop is found with front.rfind( '.' ), which lands INSIDE the brackets of 'l[x.i]'.  The key
'l[x.i]..c' is rewritten to 'l[x.c' and then refused with "unbalance brackets", although
'l[x.i].v..v' and 'l[0]..c' (same shape, no dot in the index) both work.
"""
import sys
from cpppo.dotdict import dotdict

failures = []

d = dotdict()
d['x.i'] = 1
d['c'] = 7
d['l'] = [ dotdict( v=10 ), dotdict( v=11 ) ]
d['sub.n'] = 0
d['sub.c'] = 8
d['sub.l'] = [ dotdict( v=20 ) ]

cases = [
    ( 'l[1]..c',            7 ),     # reference: no '.' in the index
    ( 'l[x.i].v',           11 ),    # reference: dotted index without back-tracking
    ( 'l[x.i].v..v',        11 ),    # reference: back-tracking one further down
    ( 'l[x.i]..c',          7 ),
    ( 'l[x.i].v...c',       7 ),
    ( 'sub.l[n]..c',        8 ),     # reference
    ( 'sub.l[n].v...c',     8 ),     # reference
    ( 'l[x.i]..sub.c',      8 ),
]
for path,value in cases:
    try:
        got = d[path]
    except KeyError as exc:
        failures.append( "d[%r] -> KeyError %s; expected %r" % ( path, exc, value ))
        continue
    if got != value:
        failures.append( "d[%r] -> %r; expected %r" % ( path, got, value ))
    if path not in d:
        failures.append( "%r not in d" % ( path, ))

try:
    d['l[x.i]..c'] = 70
    if d['c'] != 70:
        failures.append( "d['l[x.i]..c'] = 70 did not assign 'c' (c == %r)" % ( d['c'], ))
except KeyError as exc:
    failures.append( "d['l[x.i]..c'] = 70 -> KeyError %s; expected to assign 'c'" % ( exc, ))

if failures:
    print( "observed (expected: 'seg..name' addresses <name> in the parent of <seg>, also when <seg> is 'l[x.i]'):" )
    for f in failures:
        print( "  " + f )
    sys.exit( 1 )
print( "OK" )
