"""C16 defect 10: the apidict "copy constructor" apidict( <apidict> ) neither copies nor shares
consistently, and fails on a tree holding a list of levels.

apidict_base.__init__ has a "special case for copying another apidict": it feeds
timeout.listitems( depth=1 ) to update().  iteritems( depth=1 ) does not stop at the top level (as
its doc string says: "To approximate the normal dict.items() ... call with depth=1") but one level
further down, yielding 'p.q' -> <level>.  So the first level of the copy is rebuilt, while every
level below it is the SAME object as in the original (assignments through the copy show up in the
original); and a list of levels is yielded as 'l[0].v', which update() cannot assign (NameError).
"""
import sys
from cpppo.dotdict import dotdict, apidict_threading as apidict

failures = []

a = apidict( 0.01 )
a['x'] = 1
a['p.q.r'] = 1
a['p.s'] = 2

# what iteritems documents for depth=1
top = a.listkeys( depth=1 )
if sorted( top ) != ['p', 'x']:
    failures.append( "listkeys( depth=1 ) -> %r; documented as the current dict's own keys ['p', 'x']" % ( sorted( top ), ))

b = apidict( a )
if sorted( b.keys() ) != sorted( a.keys() ):
    failures.append( "copy lists %r, original %r" % ( sorted( b.keys() ), sorted( a.keys() )))
b['p.s'] = 20           # first level: rebuilt, not shared
b['p.q.r'] = 10         # second level: shared
if ( a['p.s'], a['p.q.r'] ) != ( 2, 1 ):
    failures.append( "after b = apidict( a ); b['p.s'] = 20; b['p.q.r'] = 10  the original has p.s == %r, p.q.r == %r (expected 2, 1)" % (
        a['p.s'], a['p.q.r'] ))

a['l'] = [ dotdict( v=1 ), dotdict( v=2 ) ]
try:
    c = apidict( a )
    if c['l[1].v'] != 2:
        failures.append( "copy of list of levels wrong" )
except Exception as exc:
    failures.append( "apidict( <apidict holding a list of levels> ) -> %s: %s" % ( type( exc ).__name__, exc ))

if failures:
    print( "observed (expected: a copy that is structurally independent of the original, for any tree):" )
    for f in failures:
        print( "  " + f )
    sys.exit( 1 )
print( "OK" )
