"""C16 defect 1: an assignment that is REFUSED still changes the tree.

dotdict.__setitem__ creates the intermediate level ( dict.setdefault( mine, dotdict() ) ) before it
descends; when the rest of the path is then refused (reserved method name, an index that does not
exist, a leaf in the way), the freshly created empty levels stay behind: they look up, are members,
and are listed by key iteration -- although no successful assignment ever put them there.
"""
import sys
from cpppo.dotdict import dotdict

failures = []

def snapshot( d ):
    return sorted( ( k, repr( v )) for k,v in d.items() )

cases = [
    ( "reserved name as the last component",   'cfg.net.keys',        1 ),
    ( "reserved name as an interior level",    'cfg.update.depth',    1 ),
    ( "index into a list that does not exist", 'cfg.ports[0].speed',  1 ),
    ( "dunder name",                           'cfg.io.__class__',    1 ),
]
for what,path,value in cases:
    d = dotdict()
    d['x'] = 0
    before = snapshot( d )
    try:
        d[path] = value
        failures.append( "%s: %r was not refused" % ( what, path ))
        continue
    except Exception as exc:
        refusal = "%s: %s" % ( type( exc ).__name__, exc )
    after = snapshot( d )
    if after != before:
        failures.append( "%s: d[%r] = %r refused (%s), but the tree changed: keys %r -> %r; 'cfg' in d == %r" % (
            what, path, value, refusal, [k for k,_ in before], [k for k,_ in after], 'cfg' in d ))

# The same through setdefault and update
d = dotdict()
try:
    d.setdefault( 'a.b.pop', 1 )
except KeyError:
    pass
if 'a' in d or list( d ):
    failures.append( "setdefault( 'a.b.pop', 1 ) refused, but left %r behind ('a.b' in d == %r)" % ( list( d ), 'a.b' in d ))

if failures:
    print( "observed (expected: a refused assignment leaves the tree as it was):" )
    for f in failures:
        print( "  " + f )
    sys.exit( 1 )
print( "OK" )
