"""C16 defect 3: a path with a trailing '.' is resolved differently by assignment and by lookup.

_resolve( 'a.b.' ) yields mine='a', rest='b.' and finally mine='b', rest=''.  __setitem__ tests
"if rest:" and so treats '' like None: it stores at 'a.b' -- silently REPLACING a whole level.
__getitem__ / __contains__ / __delitem__ / pop test "rest is None" and go on to look for the key ''
inside a.b.  So a value assigned by the path cannot be read back by the same path, and an
assignment that (according to _resolve's doc string) should raise KeyError destroys a sub-tree.
"""
import sys
from cpppo.dotdict import dotdict

failures = []

d = dotdict()
d['a.b.c'] = 1
d['a.b.d'] = 2
before = sorted( d.keys() )
try:
    d['a.b.'] = 5
    assigned = True
except KeyError:
    assigned = False

if assigned:
    # Accepted: then the same path must read back what was stored, and nothing else may be lost
    try:
        got = d['a.b.']
    except KeyError as exc:
        got = exc
    if got != 5 or 'a.b.' not in d:
        failures.append( "d['a.b.'] = 5 accepted, but d['a.b.'] -> %r, 'a.b.' in d == %r" % ( got, 'a.b.' in d ))
    lost = [ k for k in before if k not in d ]
    if lost:
        failures.append( "d['a.b.'] = 5 replaced the non-empty level 'a.b': keys %r are gone, keys now %r" % (
            lost, sorted( d.keys() )))
else:
    if sorted( d.keys() ) != before:
        failures.append( "refused, but tree changed" )

# same for a single component
e = dotdict()
try:
    e['x.'] = 1
    try:
        got = e['x.']
    except KeyError as exc:
        got = exc
    if got != 1:
        failures.append( "e['x.'] = 1 accepted (keys %r), but e['x.'] -> %r and 'x.' in e == %r" % (
            list( e.keys() ), got, 'x.' in e ))
except KeyError:
    pass

if failures:
    print( "observed (expected: either a KeyError on assignment, or assignment and lookup agreeing on the node addressed):" )
    for f in failures:
        print( "  " + f )
    sys.exit( 1 )
print( "OK" )
