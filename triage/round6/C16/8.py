"""C16 defect 8: deleting a path that leads through a leaf raises TypeError, not KeyError.

Lookup, membership and pop all report such a path as absent (KeyError / False); __delitem__ ends in
"del target[rest]" on whatever the first component holds, so for an int, str, list, ... in the way
the caller gets  TypeError: 'int' object does not support item deletion  (or the list's own
"list indices must be integers").  Code that guards a delete with "except KeyError" is not protected.
"""
import sys
from cpppo.dotdict import dotdict

failures = []

d = dotdict()
d['a'] = 5
d['s'] = 'text'
d['n'] = None
d['l'] = [ dotdict( v=1 ) ]
d['deep.leaf'] = 1.5

for path in ( 'a.b', 's.b', 'n.b', 'l.v', 'deep.leaf.x', 'deep.leaf.x.y', 'l[0].v.w' ):
    assert path not in d
    try:
        d[path]
        failures.append( "%r looks up?" % ( path, ))
    except KeyError:
        pass
    try:
        d.pop( path )
        failures.append( "%r pops?" % ( path, ))
    except KeyError:
        pass
    try:
        del d[path]
        failures.append( "del d[%r] succeeded" % ( path, ))
    except KeyError:
        pass
    except Exception as exc:
        failures.append( "del d[%r] -> %s: %s  (lookup and pop raise KeyError)" % ( path, type( exc ).__name__, exc ))

if failures:
    print( "observed (expected: KeyError for deleting a path the tree does not contain):" )
    for f in failures:
        print( "  " + f )
    sys.exit( 1 )
print( "OK" )
