"""C16 defect 6: a listed key does not look up when the list of levels lives under a name that is
not a Python identifier (or is a Python keyword).

Key iteration renders a list of levels stored under <name> as '<name>[i].<leaf>'; lookup evaluates
the segment '<name>[i]' as a Python EXPRESSION ( eval( mine, ..., self ) ).  For a name such as
'class' or 'from' (both ordinary CIP / routing vocabulary), 'in', 'is', 'global', 'max-size' or '2nd'
the expression is a syntax error or means something else, so the listed key raises KeyError -- and
for 'not' the lookup even "succeeds" with the value False ( not [0] ).
"""
import sys
from cpppo.dotdict import dotdict

failures = []

for name in ( 'segment', 'class', 'from', 'in', 'global', 'not', 'max-size', '2nd', 'None' ):
    d = dotdict()
    d[name] = [ dotdict( id=7 ), dotdict( id=8 ) ]
    for k,v in d.items():
        try:
            got = d[k]
        except KeyError as exc:
            failures.append( "%-10r: listed key %r does not look up: %s; membership %r" % ( name, k, exc, k in d ))
            break
        if got != v:
            failures.append( "%-10r: listed key %r looks up to %r, listed value %r" % ( name, k, got, v ))
            break
    level = name + '[0]'
    try:
        got = d[level]
        if got is not d[name][0]:
            failures.append( "%-10r: %r looks up to %r, expected the first element %r" % ( name, level, got, d[name][0] ))
    except KeyError:
        pass # already reported above

if failures:
    print( "observed (expected: every listed key looks up to the listed value, whatever name the list is stored under):" )
    for f in failures:
        print( "  " + f )
    sys.exit( 1 )
print( "OK" )
