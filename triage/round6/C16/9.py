"""C16 defect 9: an empty level held in a list of levels is not listed by key iteration.

An empty level stored directly under a name IS listed ( 'e' -> {} ; dotdict_test: "key iteration
(does not ignore empty key layers)" ), so that iteration accounts for every node of the tree.  Inside
a list of levels the empty element yields nothing: a list of only empty levels makes the whole name
vanish from keys()/items() although it looks up, is a member, and len( d ) counts it.
"""
import sys
from cpppo.dotdict import dotdict

failures = []

d = dotdict()
d['e'] = dotdict()
d['l'] = [ dotdict(), dotdict( a=1 ), dotdict() ]
d['m'] = [ dotdict() ]
keys = [ k.replace( ' ', '' ) for k in d.keys() ]

if 'e' not in keys:
    failures.append( "empty level 'e' not listed (reference behaviour)" )
for want in ( 'l[0]', 'l[1].a', 'l[2]', 'm[0]' ):
    if want not in keys:
        failures.append( "%r looks up to %r and is a member (%r), but keys() lists only %r" % (
            want, d[want], want in d, keys ))

# consequence: a tree rebuilt from its own items() has lost the names
listed_names = set( k.split( '.' )[0].split( '[' )[0] for k in keys )
if listed_names != set( dict.keys( d )):
    failures.append( "names reachable from keys(): %r; names in the tree: %r" % ( sorted( listed_names ), sorted( dict.keys( d ))))

if failures:
    print( "observed (expected: an empty level is listed as 'name[i]' -> {} just as it is listed as 'name' -> {} outside a list):" )
    for f in failures:
        print( "  " + f )
    sys.exit( 1 )
print( "OK" )
