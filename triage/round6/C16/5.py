"""C16 defect 5: the in-place update operator bypasses every rule of the tree.

On Python >= 3.9 mappings support  d |= other  (PEP 584) as the operator form of update().  dotdict
overrides update() but not __ior__, so dict.__ior__ writes straight into the underlying dict:
a dotted key is stored raw (it is then LISTED by key iteration but does not look up), a reserved
method name is accepted as a key, and a plain dictionary is not converted into a level.
"""
import sys
from cpppo.dotdict import dotdict

if sys.version_info < (3,9):
    print( "OK (no |= for mappings before Python 3.9)" )
    sys.exit( 0 )

failures = []

ref = dotdict()
ref.update( { 'a.b': 1, 'p': { 'q.r': 2 }} )          # what update() makes of it

d = dotdict()
d |= { 'a.b': 1, 'p': { 'q.r': 2 }}
if d != ref:
    failures.append( "d |= {...} gives %r; d.update( {...} ) gives %r" % ( dict.copy( d ) if False else dict( dict.items( d )), dict( dict.items( ref ))))
for k,v in d.items():
    try:
        if d[k] != v or k not in d:
            failures.append( "listed key %r looks up to something else" % ( k, ))
    except KeyError as exc:
        failures.append( "listed key %r does not look up: KeyError %s; %r in d == %r" % ( k, exc, k, k in d ))
for path,value in ( ('a.b', 1), ('p.q.r', 2) ):
    if d.get( path ) != value:
        failures.append( "%r -> %r, expected %r" % ( path, d.get( path ), value ))

e = dotdict()
try:
    e |= { 'keys': 1, 'update': 2 }
    failures.append( "e |= { 'keys': 1, 'update': 2 } accepted the reserved names: stored %r (e.update( ... ) refuses them)" % (
        sorted( dict.keys( e )), ))
except KeyError:
    pass

if failures:
    print( "observed (expected: d |= m behaves as d.update( m )):" )
    for f in failures:
        print( "  " + f )
    sys.exit( 1 )
print( "OK" )
