"""C16 defect 4: the mapping's own .copy() does not return a copy of the tree.

'copy' is one of the reserved "standard dict interface" names, but dotdict does not override it:
dict.copy() on a subclass whose keys()/__getitem__ are overridden builds a PLAIN dict from the
flattened leaf paths ( {'a.b': 1} for the tree a -> b -> 1 ).  The result is not a dotdict, does not
compare equal to the original, has no level 'a', and a tree holding a list of levels cannot even be
rebuilt from it.  ( copy.copy( d ) is fine -- it uses __copy__. )
"""
import sys
from cpppo.dotdict import dotdict

failures = []

d = dotdict()
d['a.b'] = 1
d['a.c.d'] = 2
d['l'] = [ dotdict( v=1 ), dotdict( v=2 ) ]

c = d.copy()
if not isinstance( c, dotdict ):
    failures.append( "d.copy() is a %s: %r" % ( type( c ).__name__, c ))
if c != d:
    failures.append( "d.copy() != d" )
for path,value in ( ('a.b', 1), ('a.c.d', 2), ('l[1].v', 2) ):
    try:
        c_a = dotdict( c ) if not isinstance( c, dotdict ) else c   # be generous: re-wrap it
        if c_a[path] != value:
            failures.append( "copy: %r -> %r, expected %r" % ( path, c_a[path], value ))
    except Exception as exc:
        failures.append( "copy (re-wrapped as dotdict): %r fails: %s: %s" % ( path, type( exc ).__name__, exc ))
        break
try:
    if 'a' not in c or c['a'] != d['a']:
        failures.append( "copy has no level 'a' equal to the original's" )
except Exception as exc:
    failures.append( "copy: level 'a': %s: %s" % ( type( exc ).__name__, exc ))

if failures:
    print( "observed (expected: d.copy() is an equal, structurally independent dotdict, like copy.copy( d )):" )
    for f in failures:
        print( "  " + f )
    sys.exit( 1 )
print( "OK" )
