"""C16 defect 2: apidict (the dotdict used for server control / connection statistics) cannot take
a plain dictionary, and cannot be copied.

dotdict.__setitem__ converts a plain dict with self.__class__( value ), and __copy__ / __deepcopy__
build type( self )( <pairs> ); for an apidict the first constructor argument is the timeout, so
each of these raises AssertionError instead of producing an addressable level / an independent copy.
"""
import sys, copy
from cpppo.dotdict import dotdict, apidict_threading as apidict

failures = []

def attempt( what, fun, check ):
    try:
        res = fun()
    except BaseException as exc:
        failures.append( "%s: raised %s: %s" % ( what, type( exc ).__name__, exc ))
        return
    try:
        problem = check( res )
    except BaseException as exc:
        problem = "%s: %s" % ( type( exc ).__name__, exc )
    if problem:
        failures.append( "%s: %s" % ( what, problem ))

a = apidict( 0.01 )
a['count'] = 1
a['peer.addr'] = 'localhost'        # dotted assignment creates a level: works

attempt( "a['limits'] = {'lo': 0, 'hi': {'soft': 8}}",
         lambda: a.__setitem__( 'limits', { 'lo': 0, 'hi': { 'soft': 8 }} ),
         lambda _: None if a['limits.hi.soft'] == 8 and 'limits.lo' in a else "not addressable: %r" % ( a, ))
attempt( "a.update( { 'opts': { 'x': 1 }} )",
         lambda: a.update( { 'opts': { 'x': 1 }} ),
         lambda _: None if a['opts.x'] == 1 else "not addressable" )
attempt( "apidict( 0.01, { 'opts': { 'x': 1 }} )",
         lambda: apidict( 0.01, { 'opts': { 'x': 1 }} ),
         lambda r: None if r['opts.x'] == 1 else "not addressable" )

def independent( c ):
    if sorted( c.keys() ) != sorted( a.keys() ):
        return "copy has keys %r, original %r" % ( sorted( c.keys() ), sorted( a.keys() ))
    c['peer.addr'] = 'elsewhere'
    if a['peer.addr'] != 'localhost':
        return "copy shares the level 'peer' with the original"
attempt( "copy.copy( <apidict> )",     lambda: copy.copy( a ),     independent )
attempt( "copy.deepcopy( <apidict> )", lambda: copy.deepcopy( a ), independent )

# and therefore a dotdict holding an apidict as one of its levels (as server/enip/main.py's
# 'connections' does) cannot be copied either
conns = dotdict()
conns['127_0_0_1_1234'] = apidict( 0.01, requests=0 )
attempt( "copy.deepcopy( dotdict holding an apidict level )",
         lambda: copy.deepcopy( conns ),
         lambda c: None if c['127_0_0_1_1234.requests'] == 0 else "wrong content" )

if failures:
    print( "observed (expected: plain dicts become levels of an apidict too, and copies of it are independent trees):" )
    for f in failures:
        print( "  " + f )
    sys.exit( 1 )
print( "OK" )
