"""
C12 / connector.issue "index accounting" (unchanged code): the request index is sent as its decimal text
in the 8-byte EtherNet/IP sender_context ( index_to_sender_context + format_context, which silently
truncates to 8 bytes ), and harvest compares the echoed ( truncated ) context with the untruncated one.
From index 100000000 on ( a caller-supplied 'index', or the 10^8-th request of one operate/pipeline
call, eg. a long running recycle() of tags ), every healthy reply is reported as "Mismatched" and the
run is aborted with an AssertionError.

Expected: one result per operation for any starting index.
"""
import sys, time, threading, socket, logging

from cpppo.dotdict import dotdict, apidict
from cpppo.server import enip
from cpppo.server.enip import client
from cpppo.server.enip.main import main as enip_main

logging.disable( logging.ERROR )

def start_server( port, tags ):
    srv = threading.Thread( target=enip_main, kwargs=dict(
        argv=[ '--no-udp', '--address', 'localhost:%d' % port ] + list( tags ),
        server=dotdict( control=apidict( enip.timeout, { 'done': False } ))))
    srv.daemon = True
    srv.start()
    return srv

def connect( port ):
    for _ in range( 200 ):
        try:
            return client.connector( host='localhost', port=port, timeout=5.0 )
        except socket.error:
            time.sleep( .1 )
    raise Exception( "No simulator on port %d" % port )

PORT = 23447
start_server( PORT, [ 'Int=INT[4]' ] )
bad = 0
for index in ( 0, 99999998 ):
    conn = connect( PORT )
    try:
        with conn:
            res = [ ( idx, sts, val ) for idx,dsc,req,rpy,sts,val in conn.pipeline(
                client.parse_operations( [ 'Int[0]', 'Int[1]', 'Int[2]', 'Int[3]' ] ), index=index, depth=2, timeout=5.0 ) ]
    except Exception as exc:
        res = "%s: %s" % ( type( exc ).__name__, str( exc ).split( '\n' )[0] )
        bad += 1
    finally:
        conn.close()
    print( "index=%-10d --> %r" % ( index, res ))
if bad:
    print( "OBSERVED: the run is aborted once the index needs 9 digits; EXPECTED: 4 results" )
    sys.exit( 1 )
print( "OK" )
