"""
C12 "a formatted path parses back to the same segments" (unchanged code).

 a) parse_path_elements splits the text on '.' before anything else, so a JSON segment holding a '.'
    ( the documented "@.../{...}" form: "any segment type at all by providing it in JSON form" ), eg. a
    port segment with an IP link, cannot be parsed -- neither typed by hand, nor as formatted by
    format_path.
 b) format_path keeps only ONE pending element index: of two successive element segments the first is
    silently dropped, and an element segment in front of an instance/attribute segment is silently moved
    behind it.  ( Its docstring: "Raises an Exception if unrecognized". )

Expected for every segment list: format_path raises, or device.parse_path( format_path( segments )) == segments.
"""
import sys
from cpppo.server.enip import client, device

cases = [
    [ {'class': 2}, {'instance': 1}, {'port': 1, 'link': '1.2.3.4'} ],
    [ {'class': 0xF5}, {'instance': 1}, {'connection': 1.5} ],
    [ {'symbolic': 'A'}, {'element': 1}, {'element': 2} ],
    [ {'class': 0x6B}, {'instance': 1}, {'attribute': 2}, {'element': 3}, {'element': 4} ],
    [ {'class': 2}, {'element': 3}, {'instance': 1} ],
    [ {'class': 2}, {'instance': 1}, {'element': 3}, {'attribute': 1} ],
]
bad = 0
for segments in cases:
    try:
        text = client.format_path( segments )
    except Exception as exc:
        print( "%-75r refused by format_path: %s" % ( segments, exc ))
        continue
    try:
        back = device.parse_path( text )
    except Exception as exc:
        back = "%s: %s" % ( type( exc ).__name__, str( exc )[:60] )
    ok = back == segments
    bad += not ok
    print( "%-75r --> %-40r --> %s" % ( segments, text, "same" if ok else back ))
if bad:
    print( "OBSERVED: %d formatted paths do not parse back to their segments; EXPECTED: all do ( or format_path raises )" % bad )
    sys.exit( 1 )
print( "OK" )
