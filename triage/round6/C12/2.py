"""
C12 contradiction (unchanged code): the value yielded for a REFUSED write depends on whether the
results pass through connector.validate ( operate/process( ..., printing=True ) or validating=True ).

connector.validate replaces the value of every Write Tag [Fragmented] reply by the data of the request
-- also when the reply carries an error status.  So the same refused write yields None without
printing, and the (truthy) list of written values with printing; connector.process( printing=True ),
hence "python -m cpppo.server.enip.client --print ...", counts 0 failures and exits 0.

Expected ( docstrings of validate / operate: "fills in the yielded value written for *successful*
Write Tag [Fragmented] requests" ): a refused write yields None, and counts as a failure, in both.
"""
import sys, time, threading, socket, logging

from cpppo.dotdict import dotdict, apidict
from cpppo.server import enip
from cpppo.server.enip import client
from cpppo.server.enip.main import main as enip_main

logging.disable( logging.ERROR )

def start_server( port, tags ):
    srv = threading.Thread( target=enip_main, kwargs=dict(
        argv=[ '--no-udp', '--address', 'localhost:%d' % port ] + list( tags ),
        server=dotdict( control=apidict( enip.timeout, { 'done': False } ))))
    srv.daemon = True
    srv.start()
    return srv

def connect( port ):
    for _ in range( 200 ):
        try:
            return client.connector( host='localhost', port=port, timeout=5.0 )
        except socket.error:
            time.sleep( .1 )
    raise Exception( "No simulator on port %d" % port )

PORT = 23442
start_server( PORT, [ 'Int=INT[10]' ] )
tags = [ 'Int[0]=1', 'Int[10]=5', 'Int[3]=(DINT)7', 'Int[3]' ]  # ok; beyond the end; wrong type; ok

out = {}
for label,kw in [ ( 'plain', dict() ), ( 'printing', dict( printing=True )),
                  ( 'validating+multiple', dict( validating=True, multiple=500 )) ]:
    conn = connect( PORT )
    with conn:
        out[label] = conn.process( client.parse_operations( tags ), timeout=5.0, **kw )
    conn.close()
for label,( failures,values ) in out.items():
    print( "%-20s failures == %d, values == %r" % ( label, failures, values ))
def refused( o ):
    failures,values = o
    return failures,[ v is None for v in values ]
if any( refused( o ) != refused( out['plain'] ) for o in out.values() ):
    print( "OBSERVED: refused writes yield their data and are not counted as failures when validating/printing; "
           "EXPECTED: None and %d failures in every case" % ( out['plain'][0] ))
    sys.exit( 1 )
print( "OK" )
