"""
C12 contradiction (unchanged code): an operation the target cannot resolve -- a Tag that does not exist,
an Object (class/instance) that does not exist, a service the Object does not support -- is answered
differently depending on bundling:

  - bundled into a Multiple Service Packet ( multiple=N ): the operation alone is refused with a CIP
    status ( 0x05 / 0x08 ) and its neighbours are executed: one result per operation;
  - issued alone ( synchronous or pipelined, multiple=0 ): the simulator answers with EtherNet/IP
    encapsulation status 0x08 and ends the session; the client raises ENIPStatusError, and the
    operations behind it are never executed.

Expected: the same ( status, value ) sequence in every mode.
"""
import sys, time, threading, socket, logging

from cpppo.dotdict import dotdict, apidict
from cpppo.server import enip
from cpppo.server.enip import client
from cpppo.server.enip.main import main as enip_main

logging.disable( logging.ERROR )

def start_server( port, tags ):
    srv = threading.Thread( target=enip_main, kwargs=dict(
        argv=[ '--no-udp', '--address', 'localhost:%d' % port ] + list( tags ),
        server=dotdict( control=apidict( enip.timeout, { 'done': False } ))))
    srv.daemon = True
    srv.start()
    return srv

def connect( port ):
    for _ in range( 200 ):
        try:
            return client.connector( host='localhost', port=port, timeout=5.0 )
        except socket.error:
            time.sleep( .1 )
    raise Exception( "No simulator on port %d" % port )
from cpppo.server.enip.get_attribute import attribute_operations

PORT = 23441
start_server( PORT, [ 'Int@0x99/1/1=INT[10]', 'One@0x99/2/3=INT' ] )

def go( operations, **kw ):
    conn = connect( PORT )
    out = []
    try:
        with conn:
            for idx,dsc,req,rpy,sts,val in conn.operate( operations, timeout=5.0, **kw ):
                out.append( ( sts, val ))
    except Exception as exc:
        out.append( "%s: %s" % ( type( exc ).__name__, str( exc ).split( '\n' )[0] ))
    finally:
        conn.close()
    return out

cases = [
    ( "read of an unknown Tag",         lambda: client.parse_operations( [ 'Int[0]', 'Nope', 'Int[1]' ] )),
    ( "Get Attribute Single, unknown instance", lambda: attribute_operations( [ '@0x99/2/3', '@0x99/7/1', '@0x99/2/3' ] )),
    ( "unsupported service code",       lambda: client.parse_operations( [ 'Int[0]', dict( method='service_code', code=0x33, path='@0x99/2/3' ), 'Int[1]' ] )),
]
bad = 0
for name,ops in cases:
    results = {}
    for label,kw in [ ( 'synchronous', dict() ), ( 'depth=2', dict( depth=2 )), ( 'multiple=500', dict( multiple=500 )) ]:
        results[label] = go( ops(), **kw )
    same = all( r == results['multiple=500'] for r in results.values() )
    print( "%s:" % name )
    for label,r in results.items():
        print( "    %-14s %r" % ( label, r ))
    if not same:
        bad += 1
if bad:
    print( "OBSERVED: %d of %d refused operations give different results alone and bundled; EXPECTED: identical results" % ( bad, len( cases )))
    sys.exit( 1 )
print( "OK" )
