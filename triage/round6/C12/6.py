"""
C12 / get_attribute.proxy.read_details (unchanged code): attribute descriptions its docstring lists as
valid are refused before any I/O.

 a) ( "Tag", None, "kWh" ) -- "a type/types (may be None, to force Tag I/O)" -- fails the is_request
    check ( its type test admits only a str, a class, or a list of those; None is none of them ):
    AssertionError "Not a valid read/write target".
 b) a 2-element *list* [ "@0x99/2/3", "INT" ] passes is_request ( is_listlike ), then
    "a+(None,)" raises TypeError: can only concatenate list (not "tuple") to list.

Expected: one result per attribute description, the same as for the equivalent "Tag" / ( "@0x99/2/3", "INT" ).
"""
import sys, time, threading, socket, logging

from cpppo.dotdict import dotdict, apidict
from cpppo.server import enip
from cpppo.server.enip import client
from cpppo.server.enip.main import main as enip_main

logging.disable( logging.ERROR )

def start_server( port, tags ):
    srv = threading.Thread( target=enip_main, kwargs=dict(
        argv=[ '--no-udp', '--address', 'localhost:%d' % port ] + list( tags ),
        server=dotdict( control=apidict( enip.timeout, { 'done': False } ))))
    srv.daemon = True
    srv.start()
    return srv

def connect( port ):
    for _ in range( 200 ):
        try:
            return client.connector( host='localhost', port=port, timeout=5.0 )
        except socket.error:
            time.sleep( .1 )
    raise Exception( "No simulator on port %d" % port )
from cpppo.server.enip.get_attribute import proxy

PORT = 23446
start_server( PORT, [ 'Int=INT[4]', 'One@0x99/2/3=INT' ] )

def read( attributes ):
    via = proxy( 'localhost', port=PORT, timeout=5.0, depth=2, multiple=500 )
    try:
        with via:
            return [ ( val, sts ) for val,(sts,(att,typ,uni)) in via.read_details( attributes ) ]
    except Exception as exc:
        return "%s: %s" % ( type( exc ).__name__, exc )
    finally:
        via.close_gateway()

bad = 0
for reference,variant in [ ( [ 'Int[1]' ],                [ ( 'Int[1]', None, 'kWh' ) ] ),
                           ( [ ( '@0x99/2/3', 'INT' ) ],   [ [ '@0x99/2/3', 'INT' ] ] ) ]:
    ref,var = read( reference ),read( variant )
    print( "%-28r --> %r\n%-28r --> %r" % ( reference, ref, variant, var ))
    bad += ref != var
if bad:
    print( "OBSERVED: %d documented attribute descriptions are refused; EXPECTED: the same result as their equivalent" % bad )
    sys.exit( 1 )
print( "OK" )
