"""
C12 / connector.issue (unchanged code): the bundle size limit is not honoured.  The operation that makes
a Multiple Service Packet "too full" is carried over into the next packet, but its own request/reply
size estimate is not: the next packet starts counting at the bare overhead ( reqsiz = reqmin ), so
every packet but the first may exceed the limit by one operation.  The same slip lets an operation of
"completely unknown" reply size ( Get Attribute Single without data_size/tag_type, whose estimate is
set to the limit itself "to prevent merging" ) be merged with the operations behind it.

Here: 7 identical writes of 40 INTs ( estimate 24 + 80 == 104 bytes each, 68 bytes overhead ) with a limit
of 250 bytes: 68 + 104 < 250 <= 68 + 2 * 104, so every packet should carry exactly 1 write.
"""
import sys, time, threading, socket, logging

from cpppo.dotdict import dotdict, apidict
from cpppo.server import enip
from cpppo.server.enip import client
from cpppo.server.enip.main import main as enip_main

logging.disable( logging.ERROR )

def start_server( port, tags ):
    srv = threading.Thread( target=enip_main, kwargs=dict(
        argv=[ '--no-udp', '--address', 'localhost:%d' % port ] + list( tags ),
        server=dotdict( control=apidict( enip.timeout, { 'done': False } ))))
    srv.daemon = True
    srv.start()
    return srv

def connect( port ):
    for _ in range( 200 ):
        try:
            return client.connector( host='localhost', port=port, timeout=5.0 )
        except socket.error:
            time.sleep( .1 )
    raise Exception( "No simulator on port %d" % port )

PORT = 23443
LIMIT = 250
start_server( PORT, [ 'Int=INT[100]', 'One@0x99/2/3=INT' ] )

def bundles( operations, multiple ):
    conn = connect( PORT )
    sent = []
    send = conn.send
    def recording( request, timeout=None ):
        sent.append( len( request ))
        return send( request, timeout=timeout )
    conn.send = recording
    groups = {}
    with conn:
        for idx,dsc,req,rpy,sts,val in conn.operate( operations, multiple=multiple, timeout=5.0 ):
            assert sts == 0, "unexpected status %r" % ( sts, )
            groups.setdefault( idx, [] ).append( dsc.split()[1] )
    conn.close()
    return [ groups[i] for i in sorted( groups ) ], sent

tags = [ 'Int[0-39]=' + ','.join( str( i ) for i in range( 40 )) ] * 7
grp,sent = bundles( client.parse_operations( tags ), LIMIT )
print( "limit %d: members per packet %r, bytes on the wire per packet %r" % ( LIMIT, [ len( g ) for g in grp ], sent ))
bad = [ len( g ) for g in grp if len( g ) > 1 ]

# and: an operation of unknown reply size is to travel alone
ops = [ dict( method='get_attribute_single', path='@0x99/2/3', data_size=2 ),
        dict( method='get_attribute_single', path='@0x99/2/3' ),		# unknown reply size
        dict( method='get_attribute_single', path='@0x99/2/3', data_size=2 ),
        dict( method='get_attribute_single', path='@0x99/2/3', data_size=2 ) ]
grp2,_ = bundles( client.parse_operations( ops ), 500 )
print( "limit 500: [ G_A_S of 2 bytes, G_A_S of unknown size, G_A_S of 2 bytes, G_A_S of 2 bytes ] travel as %r" % ( [ len( g ) for g in grp2 ], ))

if bad or len( grp2 ) < 2 or len( grp2[1] ) != 1:
    print( "OBSERVED: packets of %r members ( %r bytes on the wire ) under a limit of %d bytes; unknown-size operation "
           "shares a packet with %d others.  EXPECTED: 1 member per packet; the unknown-size operation alone" % (
               [ len( g ) for g in grp ], sent, LIMIT, len( grp2[1] ) - 1 ))
    sys.exit( 1 )
print( "OK" )
