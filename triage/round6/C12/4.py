"""
C12 / client.CIP_TYPES validators (unchanged code): the validators of the signed types accept the "extra
range" up to the unsigned limit ( SINT -128..255, INT -32768..65535, DINT .., LINT .. ), with the remark
"all provided values will fit legitimately into the data type without loss".  They do not: the
producers pack SINT/INT/DINT/LINT as signed, and Set Attribute Single packs SINT as unsigned.  So a
well-formed operation string that parse_operations / attribute_operations accept blows up with
struct.error inside connector.issue -- in the middle of the list: the operations in front of it have
been executed ( synchronous / pipelined ) or not even sent ( bundled ).

Expected: what the validator accepts can be issued ( eg. 255 as SINT goes out as 0xFF and reads back -1 ),
or the validator refuses it when the operation string is parsed.
"""
import sys, time, threading, socket, logging

from cpppo.dotdict import dotdict, apidict
from cpppo.server import enip
from cpppo.server.enip import client
from cpppo.server.enip.main import main as enip_main

logging.disable( logging.ERROR )

def start_server( port, tags ):
    srv = threading.Thread( target=enip_main, kwargs=dict(
        argv=[ '--no-udp', '--address', 'localhost:%d' % port ] + list( tags ),
        server=dotdict( control=apidict( enip.timeout, { 'done': False } ))))
    srv.daemon = True
    srv.start()
    return srv

def connect( port ):
    for _ in range( 200 ):
        try:
            return client.connector( host='localhost', port=port, timeout=5.0 )
        except socket.error:
            time.sleep( .1 )
    raise Exception( "No simulator on port %d" % port )
from cpppo.server.enip.get_attribute import attribute_operations

PORT = 23444
start_server( PORT, [ 'S@0x99/2/1=SINT[4]', 'I=INT[4]', 'D=DINT[4]' ] )

bad = []
for parse,tag in [ ( client.parse_operations, 'S[0]=(SINT)255' ),
                   ( client.parse_operations, 'I[0]=65535' ),
                   ( client.parse_operations, 'D[0]=(DINT)4294967295' ),
                   ( attribute_operations,    '@0x99/2/1=(SINT)-1,-2,-3,-4' ), ]:
    try:
        ops = list( parse( [ 'I[1]=7', tag ] if parse is client.parse_operations else [ tag ] ))
    except Exception as exc:
        print( "%-32s refused when parsed: %s" % ( tag, exc ))
        continue
    for kw in ( dict(), dict( multiple=500 )):
        conn = connect( PORT )
        try:
            with conn:
                res = [ ( sts, val ) for idx,dsc,req,rpy,sts,val in conn.operate( [ dict( o ) for o in ops ], timeout=5.0, **kw ) ]
            print( "%-32s %-20r --> %r" % ( tag, kw, res ))
        except Exception as exc:
            print( "%-32s %-20r accepted by the parser, then %s: %s" % ( tag, kw, type( exc ).__name__, exc ))
            bad.append( tag )
        finally:
            conn.close()
if bad:
    print( "OBSERVED: values accepted by the CIP_TYPES validators cannot be issued: %r; EXPECTED: issued, or refused by the validator" % ( sorted( set( bad )), ))
    sys.exit( 1 )
print( "OK" )
