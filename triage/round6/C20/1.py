#!/usr/bin/env python
"""C20 / tnetstrings: "no encoding" is documented but not implemented; parse_list / parse_dict default to it.

tnetstrings.parse's docstring: "If no encoding supplied, all character data in payload is returned as bytes."
parse_list( data, encoding=None ) and parse_dict( data, encoding=None ) make "no encoding" their DEFAULT.
But parse does `payload.decode( encoding )` unconditionally for a '$' payload, so with encoding=None every text
element raises TypeError instead of being returned (as bytes, per the docstring -- or as text):

    parse( dump( 'abc' ), encoding=None )     -> TypeError       (expected ( b'abc', b'' ))
    parse_list( b'1:a$' )                     -> TypeError       (expected [ b'a' ])
    parse_dict( b'1:k,1:a$' )                 -> TypeError       (expected { 'k': b'a' })

so the list / dictionary payload of a dumped value cannot be parsed by parse_list / parse_dict as they stand.
Exits 1 while the contradiction is present.
"""
from __future__ import print_function
import sys
from cpppo.server import tnetstrings

failures = []

def attempt( what, func, accept ):
    try:
        got = func()
    except Exception as exc:
        failures.append( "%s: raised %s: %s; expected one of %r" % ( what, type( exc ).__name__, exc, accept ))
        return
    if got not in accept:
        failures.append( "%s: returned %r; expected one of %r" % ( what, got, accept ))

text = u'abcπ'
raw = text.encode( 'utf-8' )
tns = tnetstrings.dump( text )				# b'5:abc\xcf\x80$'
attempt( "parse( %r, encoding=None )" % ( tns, ),
         lambda: tnetstrings.parse( tns, encoding=None ), [ ( raw, b'' ) ] )

lst = [ 1, b'x', text ]
payload, typ, rest = tnetstrings.parse_payload( tnetstrings.dump( lst ))
assert typ == b']' and rest == b''
attempt( "parse_list( %r )" % ( payload, ),
         lambda: tnetstrings.parse_list( payload ), [ [ 1, b'x', raw ], lst ] )

dct = { 'k': text }
payload, typ, rest = tnetstrings.parse_payload( tnetstrings.dump( dct ))
assert typ == b'}' and rest == b''
attempt( "parse_dict( %r )" % ( payload, ),
         lambda: tnetstrings.parse_dict( payload ), [ { 'k': raw }, dct ] )

if failures:
    print( "tnetstrings: text with no encoding supplied is neither returned as bytes (docstring) nor decoded:" )
    for f in failures:
        print( "  " + f )
    sys.exit( 1 )
print( "OK" )
