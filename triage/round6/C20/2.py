#!/usr/bin/env python
"""C20 / tnetstrings.dump_dict: a byte-string dictionary key is serialised as its Python 3 repr.

dump_dict produces each key with `dump( str( k ).encode( 'ascii' ))`.  That is a Python 2 idiom: in Python 3
str( b'k' ) is the text "b'k'", so { b'k': 1 } is dumped as  11:4:b'k',1:1#}  and parses back as { "b'k'": 1 } --
silently a different key (neither the byte string, nor its text 'k').  The same dictionary with the text key 'k'
dumps as  8:1:k,1:1#} .

Expected: the key bytes are put on the wire as they are ( 1:k, ) so that the dictionary comes back as { 'k': 1 }
(what Python 2 did, and what a peer sending that wire form gets), or the key is refused; never the repr.
Exits 1 while the contradiction is present.
"""
from __future__ import print_function
import sys
from cpppo.server import tnetstrings

value = { b'k': 1, b'3:x,': [ b'y' ] }
try:
    tns = tnetstrings.dump( value )
except Exception as exc:
    print( "OK (refused: %r)" % ( exc, ))
    sys.exit( 0 )
back, rest = tnetstrings.parse( tns )
expect = { 'k': 1, '3:x,': [ b'y' ] }
if back != expect or rest != b'':
    print( "dump( %r )\n  == %r\n  parses as %r (remaining %r)\n  expected %r, the wire form %r" % (
        value, tns, back, rest, expect, tnetstrings.dump( expect )))
    sys.exit( 1 )
print( "OK" )
