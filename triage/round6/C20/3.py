#!/usr/bin/env python
"""C20 / tnetstrings: "nested to any depth" ends at a few hundred levels (RecursionError).

dump -> dump_list -> (generator) -> dump costs three Python frames per level of nesting, parse -> parse_list ->
parse two: with the default recursion limit of 1000 a list nested about 330 deep cannot be dumped, and a
(hand-built, well-formed) tnetstring nested some 500 deep cannot be parsed (the 12 KB one nested 2000 deep below); both fail with RecursionError
rather than with a value.  A peer can send such a string in a dozen KB.

Expected by the property: any depth round-trips (an iterative dump / parse with an explicit stack would do), or at
least a deliberate, documented depth limit reported as a protocol error.  Exits 1 while the contradiction is present.
"""
from __future__ import print_function
import sys
from cpppo.server import tnetstrings

failures			= []
for depth in ( 100, 400, 2000 ):
    value			= []
    wire			= b'0:]'
    for _ in range( depth ):
        value			= [ value ]
        wire			= ( '%d:' % len( wire )).encode( 'ascii' ) + wire + b']'
    try:
        tns			= tnetstrings.dump( value )
        assert tns == wire, "dump differs from the hand-built tnetstring"
    except RecursionError as exc:
        failures.append( "dump of a list nested %d deep: RecursionError" % ( depth, ))
    try:
        back,rest		= tnetstrings.parse( wire )
        assert rest == b''
        d			= 0
        while back:
            assert type( back ) is list and len( back ) == 1
            back		= back[0]
            d		       += 1
        assert d == depth and back == []
    except RecursionError as exc:
        failures.append( "parse of a %d-byte tnetstring nested %d deep: RecursionError" % ( len( wire ), depth ))

if failures:
    print( "tnetstrings does not round-trip values nested to any depth (recursion limit %d):" % sys.getrecursionlimit() )
    for f in failures:
        print( "  " + f )
    sys.exit( 1 )
print( "OK" )
