
import sys, time, threading, socket, select, logging

from cpppo.dotdict import dotdict, apidict
from cpppo.server import enip
from cpppo.server.enip import client
from cpppo.server.enip.main import main as enip_main

logging.basicConfig( level=logging.CRITICAL )


def start_simulator( port, tags ):
    """Run the cpppo Logix simulator in this process, on localhost:<port>."""
    control			= apidict( enip.timeout, { 'done': False } )
    thread			= threading.Thread( target=enip_main, kwargs=dict(
        argv=[ '--address', 'localhost:%d' % port ] + list( tags ), server={ 'control': control } ))
    thread.daemon		= True
    thread.start()
    for _ in range( 100 ):
        try:
            socket.create_connection( ('localhost', port), timeout=.5 ).close()
            return control
        except Exception:
            time.sleep( .1 )
    raise RuntimeError( "simulator did not start" )


class Interposer( object ):
    """A TCP relay localhost:<lport> --> localhost:<sport> that understands EtherNet/IP framing in the
    server-to-client direction.  For each complete reply frame, policy( connection#, frame#, frame )
    decides what the client gets to see:

        'pass'		-- deliver the frame
        'drop'		-- the reply is lost entirely
        ('cut',n)	-- deliver the first n bytes of the frame, then close the connection
        ('stall',n)	-- deliver the first n bytes of the frame, then nothing more (connection stays open)
        ('delay',s)	-- deliver the frame s seconds late (and every later frame after it, in order)
    """
    def __init__( self, lport, sport, policy ):
        self.sport		= sport
        self.policy		= policy
        self.connections	= 0
        self.listener		= socket.socket()
        self.listener.setsockopt( socket.SOL_SOCKET, socket.SO_REUSEADDR, 1 )
        self.listener.bind( ('127.0.0.1', lport) )
        self.listener.listen( 5 )
        thread			= threading.Thread( target=self.accepting )
        thread.daemon		= True
        thread.start()

    def accepting( self ):
        while True:
            cli,_		= self.listener.accept()
            num			= self.connections
            self.connections   += 1
            thread		= threading.Thread( target=self.relay, args=(cli,num) )
            thread.daemon	= True
            thread.start()

    def relay( self, cli, num ):
        srv			= socket.create_connection( ('127.0.0.1', self.sport) )
        pending			= bytearray()
        frame			= 0
        stalled			= False
        eof			= False
        queue			= []		# [(due,data,close)], delivered strictly in order
        def finish():
            for s in (cli,srv):
                try:
                    s.close()
                except Exception:
                    pass
        try:
            while True:
                while queue and queue[0][0] <= time.time():
                    due,data,close = queue.pop( 0 )
                    if data:
                        cli.sendall( bytes( data ))
                    if close:
                        return
                r,_,_		= select.select( [cli] if eof else [cli,srv], [], [], .02 )
                if cli in r:
                    data	= cli.recv( 65536 )
                    if not data:
                        return
                    srv.sendall( data )
                if srv in r:
                    data	= srv.recv( 65536 )
                    if not data:
                        queue.append( (max( [ time.time() ] + [ due for due,_,_ in queue ] ),b'',True) )
                        eof	= True
                        continue
                    pending    += data
                    while len( pending ) >= 24 and len( pending ) >= 24 + pending[2] + 256 * pending[3]:
                        size	= 24 + pending[2] + 256 * pending[3]
                        one,pending = pending[:size],pending[size:]
                        act	= 'drop' if stalled else self.policy( num, frame, bytes( one ))
                        frame  += 1
                        now	= max( [ time.time() ] + [ due for due,_,_ in queue ] )
                        if act == 'pass':
                            queue.append( (now,one,False) )
                        elif act == 'drop':
                            pass
                        elif act[0] == 'cut':
                            queue.append( (now,one[:act[1]],True) )
                        elif act[0] == 'stall':
                            queue.append( (now,one[:act[1]],False) )
                            stalled = True
                        elif act[0] == 'delay':
                            queue.append( (now + act[1],one,False) )
        except Exception:
            pass
        finally:
            finish()


# ---------------------------------------------------------------------------------------------------
# Contradiction (unchanged code): connector.harvest, used the way its own docstring recommends
#
#     for idx,dsc,req,rpy,sts,val in cli.harvest( issued=cli.issue( operations, ... )): ...
#
# ends the result stream silently -- no exception -- when the connection is closed between two
# replies, or when a reply does not arrive within the timeout: fewer results than operations are
# returned and nothing tells the caller.  (synchronous() and pipeline() count and raise; harvest /
# collect do not, and hand the question to "upstream".)
# ---------------------------------------------------------------------------------------------------
SPORT,LPORT			= 44915,44916
TAGS				= [ 'A[0-3]', 'B[2]', 'A[9]', 'B[0-1]' ]

fault				= { 'frame': None, 'how': None }
def policy( num, frame, data ):
    if frame == fault['frame']:
        return fault['how']
    return 'pass'

def main():
    start_simulator( SPORT, [ 'A=DINT[10]', 'B=INT[10]' ] )
    Interposer( LPORT, SPORT, policy )
    bad				= []
    # frame 0 is the Register reply; 1.. the replies to TAGS[0..].  ('cut',0) closes the connection
    # exactly between two replies; ('stall',0) loses the reply and everything after it.
    for fault['frame'],fault['how'] in ( (None,None), (3,('cut',0)), (3,('stall',0)), (2,'drop') ):
        got,err			= [],None
        conn			= client.connector( 'localhost', LPORT, timeout=.5 )
        try:
            with conn:
                for idx,dsc,req,rpy,sts,val in conn.harvest(
                        issued=conn.issue( client.parse_operations( TAGS ), timeout=.5 ), timeout=.5 ):
                    got.append( val )
        except Exception as exc:
            err			= exc
        finally:
            conn.close()
        print( "fault %r at reply frame %r: %d/%d results, %s" % (
            fault['how'], fault['frame'], len( got ), len( TAGS ), "no error" if err is None else "raised %s" % type( err ).__name__ ))
        if fault['frame'] is None:
            assert err is None and len( got ) == len( TAGS ), "baseline failed: %r %r" % ( got, err )
        elif err is None and len( got ) != len( TAGS ):
            bad.append( "fault %r at reply %d: harvest( issue( %d operations )) ended normally after %d results; expected an exception" % (
                fault['how'], fault['frame'] - 1, len( TAGS ), len( got )))
    if bad:
        print( "CONTRADICTION: fewer results than operations, silently:" )
        for b in bad:
            print( "  " + b )
        return 1
    print( "ok: harvest never ended short without an error" )
    return 0

if __name__ == "__main__":
    sys.exit( main() )
