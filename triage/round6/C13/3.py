
import sys, time, threading, socket, select, logging

from cpppo.dotdict import dotdict, apidict
from cpppo.server import enip
from cpppo.server.enip import client
from cpppo.server.enip.main import main as enip_main

logging.basicConfig( level=logging.CRITICAL )


def start_simulator( port, tags ):
    """Run the cpppo Logix simulator in this process, on localhost:<port>."""
    control			= apidict( enip.timeout, { 'done': False } )
    thread			= threading.Thread( target=enip_main, kwargs=dict(
        argv=[ '--address', 'localhost:%d' % port ] + list( tags ), server={ 'control': control } ))
    thread.daemon		= True
    thread.start()
    for _ in range( 100 ):
        try:
            socket.create_connection( ('localhost', port), timeout=.5 ).close()
            return control
        except Exception:
            time.sleep( .1 )
    raise RuntimeError( "simulator did not start" )


class Interposer( object ):
    """A TCP relay localhost:<lport> --> localhost:<sport> that understands EtherNet/IP framing in the
    server-to-client direction.  For each complete reply frame, policy( connection#, frame#, frame )
    decides what the client gets to see:

        'pass'		-- deliver the frame
        'drop'		-- the reply is lost entirely
        ('cut',n)	-- deliver the first n bytes of the frame, then close the connection
        ('stall',n)	-- deliver the first n bytes of the frame, then nothing more (connection stays open)
        ('delay',s)	-- deliver the frame s seconds late (and every later frame after it, in order)
    """
    def __init__( self, lport, sport, policy ):
        self.sport		= sport
        self.policy		= policy
        self.connections	= 0
        self.listener		= socket.socket()
        self.listener.setsockopt( socket.SOL_SOCKET, socket.SO_REUSEADDR, 1 )
        self.listener.bind( ('127.0.0.1', lport) )
        self.listener.listen( 5 )
        thread			= threading.Thread( target=self.accepting )
        thread.daemon		= True
        thread.start()

    def accepting( self ):
        while True:
            cli,_		= self.listener.accept()
            num			= self.connections
            self.connections   += 1
            thread		= threading.Thread( target=self.relay, args=(cli,num) )
            thread.daemon	= True
            thread.start()

    def relay( self, cli, num ):
        srv			= socket.create_connection( ('127.0.0.1', self.sport) )
        pending			= bytearray()
        frame			= 0
        stalled			= False
        eof			= False
        queue			= []		# [(due,data,close)], delivered strictly in order
        def finish():
            for s in (cli,srv):
                try:
                    s.close()
                except Exception:
                    pass
        try:
            while True:
                while queue and queue[0][0] <= time.time():
                    due,data,close = queue.pop( 0 )
                    if data:
                        cli.sendall( bytes( data ))
                    if close:
                        return
                r,_,_		= select.select( [cli] if eof else [cli,srv], [], [], .02 )
                if cli in r:
                    data	= cli.recv( 65536 )
                    if not data:
                        return
                    srv.sendall( data )
                if srv in r:
                    data	= srv.recv( 65536 )
                    if not data:
                        queue.append( (max( [ time.time() ] + [ due for due,_,_ in queue ] ),b'',True) )
                        eof	= True
                        continue
                    pending    += data
                    while len( pending ) >= 24 and len( pending ) >= 24 + pending[2] + 256 * pending[3]:
                        size	= 24 + pending[2] + 256 * pending[3]
                        one,pending = pending[:size],pending[size:]
                        act	= 'drop' if stalled else self.policy( num, frame, bytes( one ))
                        frame  += 1
                        now	= max( [ time.time() ] + [ due for due,_,_ in queue ] )
                        if act == 'pass':
                            queue.append( (now,one,False) )
                        elif act == 'drop':
                            pass
                        elif act[0] == 'cut':
                            queue.append( (now,one[:act[1]],True) )
                        elif act[0] == 'stall':
                            queue.append( (now,one[:act[1]],False) )
                            stalled = True
                        elif act[0] == 'delay':
                            queue.append( (now + act[1],one,False) )
        except Exception:
            pass
        finally:
            finish()


# ---------------------------------------------------------------------------------------------------
# Contradiction (unchanged code), in the one other place of the library that matches replies to
# requests through cpppo.server.enip.client: the routing UCMM ( server/enip/ucmm.py ), which forwards
# an Unconnected Send over a shared client.connector per route and relies on "close the route on any
# failure" to keep request and reply together.
#
# UCMM.request creates the route connection without any lock ( `if target not in self.route_conn:` ),
# so two sessions arriving together both create one, and the slower one overwrites the dict entry
# while a third session is already queued on the first connection.  When the first connection's reply
# is late, the except-clause closes `self.route_conn.pop( target )` -- the OTHER, healthy connection --
# and leaves the faulted one open: the queued session sends its request on it and is answered with
# the late reply of the previous request.  The value of one client's request is delivered, status 0,
# as the answer to another client's request.
# ---------------------------------------------------------------------------------------------------
import os, subprocess
from cpppo.server.enip import ucmm

TPORT,MPORT,GPORT		= 44925,44926,44927	# target PLC, interposer on the route, gateway

plan				= {
    (0,0): ('delay',.10),	# 1st route connection: Register reply (still being created when the 2nd session arrives)
    (1,0): ('delay',.25),	# 2nd route connection: Register reply (stored after the 3rd session queued on the 1st)
    (0,1): ('delay',.45),	# 1st route connection: the reply to the 1st forwarded request is late (timeout is .32s)
}
def policy( num, frame, data ):
    return plan.get( (num,frame), 'pass' )

def asking( results, name, tag, delay ):
    """A separate client session to the gateway, reading <tag> from the PLC behind route 1/2"""
    time.sleep( delay )
    try:
        with client.connector( 'localhost', GPORT, timeout=3 ) as conn:
            ops			= client.parse_operations( [ tag ], route_path=[{'port':1,'link':2}], send_path='@6/1',
                                                           priority_time_tick=5, timeout_ticks=10 ) # 10 x 32ms
            (idx,dsc,req,rpy,sts,val), = conn.operate( ops, depth=1, timeout=3 )
            results[name]	= val if sts in (0,6) else "status %r" % ( sts, )
    except Exception as exc:
        results[name]		= "%s" % ( type( exc ).__name__ )

def main():
    target			= subprocess.Popen(
        [ sys.executable, '-m', 'cpppo.server.enip', '--address', 'localhost:%d' % TPORT, 'A=DINT[4]', 'B=DINT[4]' ],
        env=dict( os.environ ), stdout=subprocess.DEVNULL, stderr=subprocess.DEVNULL )
    try:
        for _ in range( 100 ):
            try:
                socket.create_connection( ('localhost',TPORT), timeout=.5 ).close()
                break
            except Exception:
                time.sleep( .1 )
        with client.connector( 'localhost', TPORT, timeout=5 ) as conn:
            fails,_		= conn.process( client.parse_operations( [
                'A[0-3]=(DINT)1111,1112,1113,1114', 'B[0-3]=(DINT)2221,2222,2223,2224' ] ), depth=1 )
            assert fails == 0
        Interposer( MPORT, TPORT, policy )

        class UCMM_routing( ucmm.UCMM ):
            route		= { "1/2": "localhost:%d" % MPORT }
        control			= apidict( enip.timeout, { 'done': False } )
        gateway			= threading.Thread( target=enip_main, kwargs=dict(
            argv=[ '--address', 'localhost:%d' % GPORT ], UCMM_class=UCMM_routing, server={ 'control': control } ))
        gateway.daemon		= True
        gateway.start()
        for _ in range( 100 ):
            try:
                socket.create_connection( ('localhost',GPORT), timeout=.5 ).close()
                break
            except Exception:
                time.sleep( .1 )

        results			= {}
        threads			= [ threading.Thread( target=asking, args=(results,name,tag,delay) )
                                    for name,tag,delay in ( ('first','A[0]',0.0), ('second','A[3]',.03), ('third','B[0]',.18) ) ]
        for t in threads:
            t.daemon		= True
            t.start()
        for t in threads:
            t.join( 10 )
        print( "three sessions through the gateway, the reply to the first one's request is late on the route:" )
        for name,tag,exp in ( ('first','A[0]',[1111]), ('second','A[3]',[1114]), ('third','B[0]',[2221]) ):
            print( "  %-6s session asked for %s (== %r): got %r" % ( name, tag, exp, results.get( name )))
        bad			= [ (name,tag,exp,results.get( name ))
                                    for name,tag,exp in ( ('first','A[0]',[1111]), ('second','A[3]',[1114]), ('third','B[0]',[2221]) )
                                    if isinstance( results.get( name ), list ) and results.get( name ) != exp ]
        if bad:
            for name,tag,exp,got in bad:
                print( "CONTRADICTION: the %s session's request for %s was answered %r, status 0; expected an error, or %r" % (
                    name, tag, got, exp ))
            return 1
        print( "ok: every session got an error or its own value" )
        return 0
    finally:
        target.kill()

if __name__ == "__main__":
    sys.exit( main() )
