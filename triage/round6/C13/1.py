
import sys, time, threading, socket, select, logging

from cpppo.dotdict import dotdict, apidict
from cpppo.server import enip
from cpppo.server.enip import client
from cpppo.server.enip.main import main as enip_main

logging.basicConfig( level=logging.CRITICAL )


def start_simulator( port, tags ):
    """Run the cpppo Logix simulator in this process, on localhost:<port>."""
    control			= apidict( enip.timeout, { 'done': False } )
    thread			= threading.Thread( target=enip_main, kwargs=dict(
        argv=[ '--address', 'localhost:%d' % port ] + list( tags ), server={ 'control': control } ))
    thread.daemon		= True
    thread.start()
    for _ in range( 100 ):
        try:
            socket.create_connection( ('localhost', port), timeout=.5 ).close()
            return control
        except Exception:
            time.sleep( .1 )
    raise RuntimeError( "simulator did not start" )


class Interposer( object ):
    """A TCP relay localhost:<lport> --> localhost:<sport> that understands EtherNet/IP framing in the
    server-to-client direction.  For each complete reply frame, policy( connection#, frame#, frame )
    decides what the client gets to see:

        'pass'		-- deliver the frame
        'drop'		-- the reply is lost entirely
        ('cut',n)	-- deliver the first n bytes of the frame, then close the connection
        ('stall',n)	-- deliver the first n bytes of the frame, then nothing more (connection stays open)
        ('delay',s)	-- deliver the frame s seconds late (and every later frame after it, in order)
    """
    def __init__( self, lport, sport, policy ):
        self.sport		= sport
        self.policy		= policy
        self.connections	= 0
        self.listener		= socket.socket()
        self.listener.setsockopt( socket.SOL_SOCKET, socket.SO_REUSEADDR, 1 )
        self.listener.bind( ('127.0.0.1', lport) )
        self.listener.listen( 5 )
        thread			= threading.Thread( target=self.accepting )
        thread.daemon		= True
        thread.start()

    def accepting( self ):
        while True:
            cli,_		= self.listener.accept()
            num			= self.connections
            self.connections   += 1
            thread		= threading.Thread( target=self.relay, args=(cli,num) )
            thread.daemon	= True
            thread.start()

    def relay( self, cli, num ):
        srv			= socket.create_connection( ('127.0.0.1', self.sport) )
        pending			= bytearray()
        frame			= 0
        stalled			= False
        eof			= False
        queue			= []		# [(due,data,close)], delivered strictly in order
        def finish():
            for s in (cli,srv):
                try:
                    s.close()
                except Exception:
                    pass
        try:
            while True:
                while queue and queue[0][0] <= time.time():
                    due,data,close = queue.pop( 0 )
                    if data:
                        cli.sendall( bytes( data ))
                    if close:
                        return
                r,_,_		= select.select( [cli] if eof else [cli,srv], [], [], .02 )
                if cli in r:
                    data	= cli.recv( 65536 )
                    if not data:
                        return
                    srv.sendall( data )
                if srv in r:
                    data	= srv.recv( 65536 )
                    if not data:
                        queue.append( (max( [ time.time() ] + [ due for due,_,_ in queue ] ),b'',True) )
                        eof	= True
                        continue
                    pending    += data
                    while len( pending ) >= 24 and len( pending ) >= 24 + pending[2] + 256 * pending[3]:
                        size	= 24 + pending[2] + 256 * pending[3]
                        one,pending = pending[:size],pending[size:]
                        act	= 'drop' if stalled else self.policy( num, frame, bytes( one ))
                        frame  += 1
                        now	= max( [ time.time() ] + [ due for due,_,_ in queue ] )
                        if act == 'pass':
                            queue.append( (now,one,False) )
                        elif act == 'drop':
                            pass
                        elif act[0] == 'cut':
                            queue.append( (now,one[:act[1]],True) )
                        elif act[0] == 'stall':
                            queue.append( (now,one[:act[1]],False) )
                            stalled = True
                        elif act[0] == 'delay':
                            queue.append( (now + act[1],one,False) )
        except Exception:
            pass
        finally:
            finish()


# ---------------------------------------------------------------------------------------------------
# Contradiction (unchanged code): on an Implicit ("connected") session a reply that is lost entirely
# makes client.implicit pair every later reply with the wrong request.  The only cross-check harvest
# has left on such a session is the service code (the sender context is always b''), although each
# SendUnitData reply echoes the 16-bit sequence count of its request (CPF item 0xb1) -- which the
# client sends, receives, parses ... and never compares.
# ---------------------------------------------------------------------------------------------------
SPORT,LPORT			= 44913,44914
TAGS				= [ 'A[0-3]', 'B[2]', 'C[1-2]', 'D[0-2]', 'A[9]' ]
EXPECT				= [ [100,101,102,103], [202], [2.5,3.5], [7,8,9], [109] ]

lost				= { 'frame': None }
def policy( num, frame, data ):
    return 'drop' if frame == lost['frame'] else 'pass'

def main():
    start_simulator( SPORT, [ 'A=DINT[10]', 'B=INT[10]', 'C=REAL[4]', 'D=SINT[3]' ] )
    Interposer( LPORT, SPORT, policy )
    with client.connector( 'localhost', SPORT, timeout=5 ) as conn:
        fails,_			= conn.process( client.parse_operations( [
            'A[0-9]=(DINT)' + ','.join( str( 100+i ) for i in range( 10 )),
            'B[0-9]=(INT)'  + ','.join( str( 200+i ) for i in range( 10 )),
            'C[0-3]=(REAL)1.5,2.5,3.5,4.5', 'D[0-2]=(SINT)7,8,9' ] ), depth=1 )
        assert fails == 0

    bad				= []
    # frames 0,1 are the Register and Forward Open replies; 2.. the replies to TAGS[0..]
    for lost['frame'] in ( None, 2, 3, 4, 5 ):
        got,err			= [],None
        conn			= client.implicit( 'localhost', LPORT, timeout=.5 )
        try:
            with conn:
                for idx,dsc,req,rpy,sts,val in conn.pipeline(
                        client.parse_operations( TAGS ), depth=3, timeout=.5 ):
                    got.append( (dsc.split()[-1],val) )
        except Exception as exc:
            err			= exc
        finally:
            try:
                conn.close()
            except Exception:
                pass
        wrong			= [ (tag,val) for (tag,val),exp in zip( got, EXPECT ) if val != exp ]
        print( "reply frame %-4s lost: yielded %r, then %s" % (
            lost['frame'], got, "no error" if err is None else type( err ).__name__ ))
        if lost['frame'] is None:
            assert err is None and not wrong and len( got ) == len( TAGS ), "baseline failed: %r %r" % ( got, err )
        elif wrong:
            bad.append( "reply #%d lost: observed %r; expected an error, or only the values of each tag itself %r" % (
                lost['frame'] - 2, wrong, list( zip( TAGS, EXPECT ))))
    if bad:
        print( "CONTRADICTION: client.implicit yields values that belong to other requests:" )
        for b in bad:
            print( "  " + b )
        return 1
    print( "ok: a lost reply never made the connected client yield another request's value" )
    return 0

if __name__ == "__main__":
    sys.exit( main() )
