
import sys, time, threading, socket, select, logging

from cpppo.dotdict import dotdict, apidict
from cpppo.server import enip
from cpppo.server.enip import client
from cpppo.server.enip.main import main as enip_main

logging.basicConfig( level=logging.CRITICAL )


def start_simulator( port, tags ):
    """Run the cpppo Logix simulator in this process, on localhost:<port>."""
    control			= apidict( enip.timeout, { 'done': False } )
    thread			= threading.Thread( target=enip_main, kwargs=dict(
        argv=[ '--address', 'localhost:%d' % port ] + list( tags ), server={ 'control': control } ))
    thread.daemon		= True
    thread.start()
    for _ in range( 100 ):
        try:
            socket.create_connection( ('localhost', port), timeout=.5 ).close()
            return control
        except Exception:
            time.sleep( .1 )
    raise RuntimeError( "simulator did not start" )


class Interposer( object ):
    """A TCP relay localhost:<lport> --> localhost:<sport> that understands EtherNet/IP framing in the
    server-to-client direction.  For each complete reply frame, policy( connection#, frame#, frame )
    decides what the client gets to see:

        'pass'		-- deliver the frame
        'drop'		-- the reply is lost entirely
        ('cut',n)	-- deliver the first n bytes of the frame, then close the connection
        ('stall',n)	-- deliver the first n bytes of the frame, then nothing more (connection stays open)
        ('delay',s)	-- deliver the frame s seconds late (and every later frame after it, in order)
    """
    def __init__( self, lport, sport, policy ):
        self.sport		= sport
        self.policy		= policy
        self.connections	= 0
        self.listener		= socket.socket()
        self.listener.setsockopt( socket.SOL_SOCKET, socket.SO_REUSEADDR, 1 )
        self.listener.bind( ('127.0.0.1', lport) )
        self.listener.listen( 5 )
        thread			= threading.Thread( target=self.accepting )
        thread.daemon		= True
        thread.start()

    def accepting( self ):
        while True:
            cli,_		= self.listener.accept()
            num			= self.connections
            self.connections   += 1
            thread		= threading.Thread( target=self.relay, args=(cli,num) )
            thread.daemon	= True
            thread.start()

    def relay( self, cli, num ):
        srv			= socket.create_connection( ('127.0.0.1', self.sport) )
        pending			= bytearray()
        frame			= 0
        stalled			= False
        eof			= False
        queue			= []		# [(due,data,close)], delivered strictly in order
        def finish():
            for s in (cli,srv):
                try:
                    s.close()
                except Exception:
                    pass
        try:
            while True:
                while queue and queue[0][0] <= time.time():
                    due,data,close = queue.pop( 0 )
                    if data:
                        cli.sendall( bytes( data ))
                    if close:
                        return
                r,_,_		= select.select( [cli] if eof else [cli,srv], [], [], .02 )
                if cli in r:
                    data	= cli.recv( 65536 )
                    if not data:
                        return
                    srv.sendall( data )
                if srv in r:
                    data	= srv.recv( 65536 )
                    if not data:
                        queue.append( (max( [ time.time() ] + [ due for due,_,_ in queue ] ),b'',True) )
                        eof	= True
                        continue
                    pending    += data
                    while len( pending ) >= 24 and len( pending ) >= 24 + pending[2] + 256 * pending[3]:
                        size	= 24 + pending[2] + 256 * pending[3]
                        one,pending = pending[:size],pending[size:]
                        act	= 'drop' if stalled else self.policy( num, frame, bytes( one ))
                        frame  += 1
                        now	= max( [ time.time() ] + [ due for due,_,_ in queue ] )
                        if act == 'pass':
                            queue.append( (now,one,False) )
                        elif act == 'drop':
                            pass
                        elif act[0] == 'cut':
                            queue.append( (now,one[:act[1]],True) )
                        elif act[0] == 'stall':
                            queue.append( (now,one[:act[1]],False) )
                            stalled = True
                        elif act[0] == 'delay':
                            queue.append( (now + act[1],one,False) )
        except Exception:
            pass
        finally:
            finish()


# ---------------------------------------------------------------------------------------------------
# Contradiction (unchanged code), UDP entry point: client.connector( ..., udp=True ) runs every reply
# datagram through the same stream framer as TCP ( client.__next__ ).  A reply datagram that arrives
# truncated therefore does not fail: the framer waits for the missing bytes and takes them from the
# front of the NEXT datagram ( the reply to the next pipelined request ).  The CIP payload of the
# truncated reply is completed with header bytes of its successor and is yielded with status 0:
# a "successful" read whose reply was never completely received, carrying a value that belongs to
# no request at all.
# ---------------------------------------------------------------------------------------------------
SPORT,LPORT			= 44928,44929
TAGS				= [ 'A[0-1]', 'B[2]', 'A[9]', 'B[0-3]' ]
EXPECT				= [ [100,101], [202], [109], [200,201,202,203] ]

class UdpRelay( object ):
    """Relays datagrams localhost:<lport> <-> localhost:<sport>; reply datagram #k is cut to n bytes if plan[k] == n"""
    def __init__( self, lport, sport ):
        self.sport		= sport
        self.plan		= {}
        self.count		= 0
        self.peer		= None
        self.down		= socket.socket( socket.AF_INET, socket.SOCK_DGRAM )
        self.down.bind( ('127.0.0.1',lport) )
        self.up			= socket.socket( socket.AF_INET, socket.SOCK_DGRAM )
        thread			= threading.Thread( target=self.run )
        thread.daemon		= True
        thread.start()

    def run( self ):
        while True:
            r,_,_		= select.select( [self.down,self.up], [], [], .1 )
            if self.down in r:
                data,self.peer	= self.down.recvfrom( 65536 )
                self.up.sendto( data, ('127.0.0.1',self.sport) )
            if self.up in r:
                data,_		= self.up.recvfrom( 65536 )
                size		= self.plan.get( self.count )
                self.count     += 1
                self.down.sendto( data if size is None else data[:size], self.peer )

def exchange( relay, plan ):
    relay.count			= 0
    relay.plan			= plan
    got,err			= [],None
    conn			= client.connector( 'localhost', LPORT, timeout=.3, udp=True )
    try:
        with conn:
            for idx,dsc,req,rpy,sts,val in conn.operate( client.parse_operations( TAGS ), depth=3, timeout=.3 ):
                got.append( (sts,val) )
    except Exception as exc:
        err			= exc
    conn.close()
    return got,err

def main():
    start_simulator( SPORT, [ 'A=DINT[10]', 'B=INT[10]' ] )
    with client.connector( 'localhost', SPORT, timeout=5 ) as conn:
        fails,_			= conn.process( client.parse_operations( [
            'A[0-9]=(DINT)' + ','.join( str( 100+i ) for i in range( 10 )),
            'B[0-9]=(INT)'  + ','.join( str( 200+i ) for i in range( 10 )) ] ), depth=1 )
        assert fails == 0
    relay			= UdpRelay( LPORT, SPORT )
    got,err			= exchange( relay, {} )
    assert err is None and [ v for s,v in got ] == EXPECT, "baseline failed: %r, %r" % ( got, err )

    bad				= []
    for reply in ( 0, 2 ):
        for size in range( 24, 56 ):
            got,err		= exchange( relay, { reply: size } )
            for (sts,val),tag,exp in zip( got, TAGS, EXPECT ):
                if val is not None and val != exp:
                    bad.append( "reply #%d cut to %d bytes: %s yielded %r with status %r (then %s); expected an error, or %r" % (
                        reply, size, tag, val, sts, type( err ).__name__, exp ))
    if bad:
        print( "CONTRADICTION: truncated UDP replies are completed from the next datagram and reported as successes:" )
        for b in bad:
            print( "  " + b )
        return 1
    print( "ok: no truncated reply datagram produced a value" )
    return 0

if __name__ == "__main__":
    sys.exit( main() )
