#!/usr/bin/env python
"""
C08 defect 5: processing time of one frame is not bounded by (anything like) its length.

state_multiple_service's closure cuts the payload of a Multiple Service Packet into members using
the offset table, without requiring the offsets to be increasing, distinct or even inside the
payload.  Every member is parsed from its offset up to the *next* offset, so with offsets that
alternate between the start and the end of the payload, half of the N members each cover the whole
payload: one frame of S bytes costs about N/2 * S parser steps.  (Nesting Multiple Service Packets
inside each other has the same effect: every level re-absorbs all the remaining bytes.)

A 4.1 KB frame with 50 members keeps the simulator busy >10x longer than a well-formed 4 KB bundle
(100 members: ~11 s, 200 members: ~21 s on this machine); since N may be
several thousand in a 64 KB frame this extrapolates to hours of CPU for a single frame, during
which the handler thread holds the GIL most of the time and repeatedly takes the shared CIP parser
lock.  The property asks for processing time bounded by the input length.
"""
import logging
import socket
import struct
import sys
import threading
import time

import cpppo
from cpppo.server import enip
from cpppo.server.enip import device, logix
from cpppo.server.enip.main import main as enip_main

def start( port, tags ):
    device.lookup_reset()
    logix.setup_reset()
    control			= cpppo.apidict( enip.timeout, { 'done': False } )
    thr				= threading.Thread( target=enip_main, kwargs=dict(
        argv=[ '--no-config', '--no-udp', '--address', 'localhost:%d' % port ] + list( tags ),
        server={ 'control': control } ))
    thr.daemon			= True
    thr.start()
    for _ in range( 200 ):
        try:
            socket.create_connection( ('localhost',port), timeout=1 ).close()
            return control
        except Exception:
            time.sleep( .05 )
    raise RuntimeError( "simulator did not start" )

def hdr( cmd, data=b'', session=0 ):
    return struct.pack( '<HHII8sI', cmd, len( data ), session, 0, b'c08_____', 0 ) + data

def rrdata( payload, session, item_length=None ):
    cpf				= struct.pack( '<HHHHH', 2, 0, 0, 0xb2,
                                               len( payload ) if item_length is None else item_length ) + payload
    return hdr( 0x6f, struct.pack( '<IH', 0, 5 ) + cpf, session=session )

def sym( name ):
    b				= name.encode()
    return b'\x91' + struct.pack( 'B', len( b )) + b + ( b'\0' if len( b ) % 2 else b'' )

def epath( segs ):
    return struct.pack( 'B', len( segs ) // 2 ) + segs

def read_tag( name, elements ):
    return b'\x4c' + epath( sym( name )) + struct.pack( '<H', elements )

def write_tag( name, typ, elements, data, idx=None ):
    p				= sym( name ) + ( b'\x28' + struct.pack( 'B', idx ) if idx is not None else b'' )
    return b'\x4d' + epath( p ) + struct.pack( '<HH', typ, elements ) + data

def write_frag( name, typ, elements, offset, data ):
    return b'\x53' + epath( sym( name )) + struct.pack( '<HHI', typ, elements, offset ) + data

class session( object ):
    def __init__( self, port, timeout=10 ):
        self.s			= socket.create_connection( ('localhost',port), timeout=timeout )
        self.s.sendall( hdr( 0x65, struct.pack( '<HH', 1, 0 )))
        self.handle,		= struct.unpack( '<I', self.frame()[4:8] )

    def frame( self ):
        buf			= b''
        while len( buf ) < 24 or len( buf ) < 24 + struct.unpack( '<H', buf[2:4] )[0]:
            try:
                d		= self.s.recv( 4096 )
            except socket.timeout:
                return None
            except socket.error:
                return b''
            if not d:
                return b''
            buf		       += d
        return buf

    def raw( self, frame ):
        """Send a complete EtherNet/IP frame; returns the CIP reply payload, b'' if closed, None on timeout."""
        self.s.sendall( frame )
        f			= self.frame()
        return f[24+6+2+4+4:] if f else f

    def cip( self, req ):
        return self.raw( rrdata( req, self.handle ))

def tag( port, name, n, fmt ):
    c				= session( port )
    r				= c.cip( read_tag( name, n ))
    c.s.close()
    assert r and r[:4] == b'\xcc\x00\x00\x00', "Read Tag %s failed: %r" % ( name, r )
    return list( struct.unpack( '<%d%s' % ( n, fmt ), r[6:] ))

def describe( rpy ):
    if rpy is None:
        return "no reply (timeout)"
    if rpy == b'':
        return "connection closed"
    return "reply %s (CIP status 0x%02x)" % ( rpy.hex(), bytearray( rpy )[2] )

PORT				= 44835

def bundle( N, L, overlap ):
    """A Multiple Service Packet with N members over ~L bytes of payload."""
    hdrsz			= 2 + 2 * N
    head			= write_tag( 'A', 0xc3, 1, b'' )		# Write Tag A; all that follows is its data
    if overlap:
        payload			= head + b'\x01\x00' * (( L - len( head )) // 2 )
        offs			= [ hdrsz if i % 2 == 0 else hdrsz + len( payload ) for i in range( N ) ]
    else:
        # N well-formed consecutive members sharing the same number of payload bytes
        each			= head + b'\x01\x00' * (( L // N - len( head )) // 2 )
        payload			= each * N
        offs			= [ hdrsz + i * len( each ) for i in range( N ) ]
    return ( b'\x0a\x02\x20\x02\x24\x01' + struct.pack( '<H', N )
             + b''.join( struct.pack( '<H', o ) for o in offs ) + payload )

def timed( req ):
    c				= session( PORT, timeout=300 )
    beg				= time.time()
    rpy				= c.cip( req )
    end				= time.time()
    c.s.close()
    assert rpy and rpy[:2] == b'\x8a\x00', "no Multiple Service Packet reply: %r" % ( rpy, )
    return end - beg

def main():
    logging.disable( logging.CRITICAL )
    start( PORT, [ 'A=INT[10]' ] )
    before			= tag( PORT, 'A', 10, 'h' )
    plain			= bundle(  2, 4000, overlap=False )
    twisted			= bundle( 50, 4000, overlap=True )
    t_plain			= min( timed( plain ) for _ in range( 2 ))
    t_twist			= timed( twisted )
    after			= tag( PORT, 'A', 10, 'h' )
    print( "request : Multiple Service Packet, 50 members, offsets alternating between start and end of a 4000-byte payload (%d bytes)" % len( twisted ))
    print( "observed: %.2fs, vs. %.2fs for a well-formed 2-member bundle of %d bytes: %.1fx the time for %.2fx the bytes" % (
        t_twist, t_plain, len( plain ), t_twist / t_plain, len( twisted ) * 1.0 / len( plain )))
    print( "expected: time proportional to the frame length (offsets that go backwards / overlap refused)" )
    assert after == before, "tag altered: %r --> %r" % ( before, after )
    if t_twist > 8 * t_plain:
        print( "CONTRADICTION: processing time grows with members x payload, not with the frame length" )
        return 1
    print( "OK" )
    return 0

if __name__ == "__main__":
    sys.exit( main() )
