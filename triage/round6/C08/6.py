#!/usr/bin/env python
"""
C08 defect 6: a session the simulator itself ends (after a bad request) leaves its Forward Open
state behind, and a later session is refused because of it.

enip_srv_tcp gives the Connection Manager a chance to forget a peer's Forward Opens only on two
paths: a clean EOF from the client, and an exception raised by enip_process.  When a request merely
*fails* - UCMM.request converts the exception into EtherNet/IP status 0x08, the reply is sent,
stats['eof'] is set and the loop ends - or when the frame itself cannot be parsed (outer except),
no termination signal is delivered: Connection_Manager.forwards keeps ( host, port, O->T id ) for
ever (and UCMM.sessions the session handle).  Any hostile session can pile up such entries, and a
new, perfectly well-behaved session that happens to come from the same host and source port (a
client that binds its local port, or plain ephemeral port reuse) finds them: its own Forward Open
with the same O->T connection ID is refused as 'incompatible' with a connection that ended long ago.
"""
import logging
import socket
import struct
import sys
import threading
import time

import cpppo
from cpppo.server import enip
from cpppo.server.enip import device, logix
from cpppo.server.enip.main import main as enip_main

def start( port, tags ):
    device.lookup_reset()
    logix.setup_reset()
    control			= cpppo.apidict( enip.timeout, { 'done': False } )
    thr				= threading.Thread( target=enip_main, kwargs=dict(
        argv=[ '--no-config', '--no-udp', '--address', 'localhost:%d' % port ] + list( tags ),
        server={ 'control': control } ))
    thr.daemon			= True
    thr.start()
    for _ in range( 200 ):
        try:
            socket.create_connection( ('localhost',port), timeout=1 ).close()
            return control
        except Exception:
            time.sleep( .05 )
    raise RuntimeError( "simulator did not start" )

def hdr( cmd, data=b'', session=0 ):
    return struct.pack( '<HHII8sI', cmd, len( data ), session, 0, b'c08_____', 0 ) + data

def rrdata( payload, session, item_length=None ):
    cpf				= struct.pack( '<HHHHH', 2, 0, 0, 0xb2,
                                               len( payload ) if item_length is None else item_length ) + payload
    return hdr( 0x6f, struct.pack( '<IH', 0, 5 ) + cpf, session=session )

def sym( name ):
    b				= name.encode()
    return b'\x91' + struct.pack( 'B', len( b )) + b + ( b'\0' if len( b ) % 2 else b'' )

def epath( segs ):
    return struct.pack( 'B', len( segs ) // 2 ) + segs

def read_tag( name, elements ):
    return b'\x4c' + epath( sym( name )) + struct.pack( '<H', elements )

def write_tag( name, typ, elements, data, idx=None ):
    p				= sym( name ) + ( b'\x28' + struct.pack( 'B', idx ) if idx is not None else b'' )
    return b'\x4d' + epath( p ) + struct.pack( '<HH', typ, elements ) + data

def write_frag( name, typ, elements, offset, data ):
    return b'\x53' + epath( sym( name )) + struct.pack( '<HHI', typ, elements, offset ) + data

class session( object ):
    def __init__( self, port, timeout=10 ):
        self.s			= socket.create_connection( ('localhost',port), timeout=timeout )
        self.s.sendall( hdr( 0x65, struct.pack( '<HH', 1, 0 )))
        self.handle,		= struct.unpack( '<I', self.frame()[4:8] )

    def frame( self ):
        buf			= b''
        while len( buf ) < 24 or len( buf ) < 24 + struct.unpack( '<H', buf[2:4] )[0]:
            try:
                d		= self.s.recv( 4096 )
            except socket.timeout:
                return None
            except socket.error:
                return b''
            if not d:
                return b''
            buf		       += d
        return buf

    def raw( self, frame ):
        """Send a complete EtherNet/IP frame; returns the CIP reply payload, b'' if closed, None on timeout."""
        self.s.sendall( frame )
        f			= self.frame()
        return f[24+6+2+4+4:] if f else f

    def cip( self, req ):
        return self.raw( rrdata( req, self.handle ))

def tag( port, name, n, fmt ):
    c				= session( port )
    r				= c.cip( read_tag( name, n ))
    c.s.close()
    assert r and r[:4] == b'\xcc\x00\x00\x00', "Read Tag %s failed: %r" % ( name, r )
    return list( struct.unpack( '<%d%s' % ( n, fmt ), r[6:] ))

def describe( rpy ):
    if rpy is None:
        return "no reply (timeout)"
    if rpy == b'':
        return "connection closed"
    return "reply %s (CIP status 0x%02x)" % ( rpy.hex(), bytearray( rpy )[2] )

PORT				= 44836
SPORT				= 40123

def fwd_open( rpi, ot_id=0x1234 ):
    # O->T: multicast, so the originator's connection ID is kept; T->O point-to-point
    body			= struct.pack( '<BBIIHHI', 7, 0xf9, ot_id, 0x80fe0010, 0x11, 0x4d, 0x1e3d7f0f )
    body		       += b'\0\0\0\0' + struct.pack( '<IHIH', rpi, 0x23f4, rpi, 0x43f4 )
    body		       += b'\xa3\x02\x20\x02\x24\x01'
    return b'\x54\x02\x20\x06\x24\x01' + body

class bound_session( session ):
    def __init__( self, port, sport ):
        for _ in range( 20 ):
            try:
                self.s		= socket.socket( socket.AF_INET, socket.SOCK_STREAM )
                self.s.setsockopt( socket.SOL_SOCKET, socket.SO_REUSEADDR, 1 )
                self.s.bind( ('127.0.0.1', sport) )
                self.s.settimeout( 5 )
                self.s.connect( ('127.0.0.1', port) )
                break
            except socket.error:
                self.s.close()
                time.sleep( .5 )
        self.s.sendall( hdr( 0x65, struct.pack( '<HH', 1, 0 )))
        self.handle,		= struct.unpack( '<I', self.frame()[4:8] )

def main():
    logging.disable( logging.CRITICAL )
    start( PORT, [ 'A=INT[10]' ] )

    # Reference: the same two sessions, the first one ending cleanly
    one				= bound_session( PORT, SPORT+1 )
    rpy				= one.cip( fwd_open( rpi=0x007a1200 ))
    assert rpy[:4] == b'\xd4\x00\x00\x00', "Forward Open refused: %r" % ( rpy, )
    one.s.close()
    time.sleep( .5 )
    two				= bound_session( PORT, SPORT+1 )
    rpy				= two.cip( fwd_open( rpi=0x003d0900 ))
    assert rpy[:4] == b'\xd4\x00\x00\x00', "reference: Forward Open of the 2nd session refused: %r" % ( rpy, )
    two.s.close()

    # Now the first session misbehaves after its Forward Open: an unknown service for the Connection Manager
    one				= bound_session( PORT, SPORT )
    rpy				= one.cip( fwd_open( rpi=0x007a1200 ))
    assert rpy[:4] == b'\xd4\x00\x00\x00', "Forward Open refused: %r" % ( rpy, )
    one.s.sendall( rrdata( b'\x99\x02\x20\x06\x24\x01', one.handle ))
    ended			= one.frame()
    status			= struct.unpack( '<I', ended[8:12] )[0] if ended else None
    gone			= one.frame()
    one.s.close()
    print( "session 1: Forward Open ok; bad request answered with EtherNet/IP status %r, then %s" % (
        status, "connection closed by the simulator" if gone == b'' else "still open?!" ))
    time.sleep( .5 )

    two				= bound_session( PORT, SPORT )
    rpy				= two.cip( fwd_open( rpi=0x003d0900 ))
    print( "request : new session from the same host:port, Forward Open (same O->T id, other RPI)" )
    print( "observed: %s" % describe( rpy ))
    print( "expected: reply d4 00 00 00 ... (success), as after a session that ended cleanly" )
    ok				= bool( rpy ) and rpy[:4] == b'\xd4\x00\x00\x00'
    if ok:
        ok			= two.cip( read_tag( 'A', 1 ))[:4] == b'\xcc\x00\x00\x00'
    if not ok:
        print( "CONTRADICTION: state left behind by a session the simulator ended makes it refuse a new session's request" )
        return 1
    print( "OK" )
    return 0

if __name__ == "__main__":
    sys.exit( main() )
