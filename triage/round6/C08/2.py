#!/usr/bin/env python
"""
C08 defect 2: an SSTRING / STRING whose length field exceeds the data actually present is stored.

A Write Tag of an SSTRING element is <length:USINT><length bytes>.  With the length byte corrupted
(or the count byte deleted so that the first character 'a' == 0x61 == 97 takes its place) only 2 bytes
follow instead of 97.  SSTRING's string_bytes( limit='..length', '.*' ) sub-machine treats the
length only as an upper bound and happily terminates at the end of the request, so the 2 bytes that
are there become the new value of the tag and the request is answered with success.  The same holds
for STRING (UINT length).  An inconsistent inner length field must not end up altering a tag.
"""
import logging
import socket
import struct
import sys
import threading
import time

import cpppo
from cpppo.server import enip
from cpppo.server.enip import device, logix
from cpppo.server.enip.main import main as enip_main

def start( port, tags ):
    device.lookup_reset()
    logix.setup_reset()
    control			= cpppo.apidict( enip.timeout, { 'done': False } )
    thr				= threading.Thread( target=enip_main, kwargs=dict(
        argv=[ '--no-config', '--no-udp', '--address', 'localhost:%d' % port ] + list( tags ),
        server={ 'control': control } ))
    thr.daemon			= True
    thr.start()
    for _ in range( 200 ):
        try:
            socket.create_connection( ('localhost',port), timeout=1 ).close()
            return control
        except Exception:
            time.sleep( .05 )
    raise RuntimeError( "simulator did not start" )

def hdr( cmd, data=b'', session=0 ):
    return struct.pack( '<HHII8sI', cmd, len( data ), session, 0, b'c08_____', 0 ) + data

def rrdata( payload, session, item_length=None ):
    cpf				= struct.pack( '<HHHHH', 2, 0, 0, 0xb2,
                                               len( payload ) if item_length is None else item_length ) + payload
    return hdr( 0x6f, struct.pack( '<IH', 0, 5 ) + cpf, session=session )

def sym( name ):
    b				= name.encode()
    return b'\x91' + struct.pack( 'B', len( b )) + b + ( b'\0' if len( b ) % 2 else b'' )

def epath( segs ):
    return struct.pack( 'B', len( segs ) // 2 ) + segs

def read_tag( name, elements ):
    return b'\x4c' + epath( sym( name )) + struct.pack( '<H', elements )

def write_tag( name, typ, elements, data, idx=None ):
    p				= sym( name ) + ( b'\x28' + struct.pack( 'B', idx ) if idx is not None else b'' )
    return b'\x4d' + epath( p ) + struct.pack( '<HH', typ, elements ) + data

def write_frag( name, typ, elements, offset, data ):
    return b'\x53' + epath( sym( name )) + struct.pack( '<HHI', typ, elements, offset ) + data

class session( object ):
    def __init__( self, port, timeout=10 ):
        self.s			= socket.create_connection( ('localhost',port), timeout=timeout )
        self.s.sendall( hdr( 0x65, struct.pack( '<HH', 1, 0 )))
        self.handle,		= struct.unpack( '<I', self.frame()[4:8] )

    def frame( self ):
        buf			= b''
        while len( buf ) < 24 or len( buf ) < 24 + struct.unpack( '<H', buf[2:4] )[0]:
            try:
                d		= self.s.recv( 4096 )
            except socket.timeout:
                return None
            except socket.error:
                return b''
            if not d:
                return b''
            buf		       += d
        return buf

    def raw( self, frame ):
        """Send a complete EtherNet/IP frame; returns the CIP reply payload, b'' if closed, None on timeout."""
        self.s.sendall( frame )
        f			= self.frame()
        return f[24+6+2+4+4:] if f else f

    def cip( self, req ):
        return self.raw( rrdata( req, self.handle ))

def tag( port, name, n, fmt ):
    c				= session( port )
    r				= c.cip( read_tag( name, n ))
    c.s.close()
    assert r and r[:4] == b'\xcc\x00\x00\x00', "Read Tag %s failed: %r" % ( name, r )
    return list( struct.unpack( '<%d%s' % ( n, fmt ), r[6:] ))

def describe( rpy ):
    if rpy is None:
        return "no reply (timeout)"
    if rpy == b'':
        return "connection closed"
    return "reply %s (CIP status 0x%02x)" % ( rpy.hex(), bytearray( rpy )[2] )

PORT				= 44832

def main():
    logging.disable( logging.CRITICAL )
    start( PORT, [ 'S=SSTRING[2]', 'T=STRING[2]' ] )
    c				= session( PORT )
    rpy				= c.cip( write_tag( 'S', 0xda, 1, b'\x03abc' ))
    assert rpy[:4] == b'\xcd\x00\x00\x00', "well-formed SSTRING Write Tag refused: %r" % ( rpy, )
    rpy				= c.cip( write_tag( 'T', 0xd0, 1, b'\x04\x00wxyz' ))
    assert rpy[:4] == b'\xcd\x00\x00\x00', "well-formed STRING Write Tag refused: %r" % ( rpy, )
    att_s			= device.lookup( *device.resolve_tag( 'S' ))
    att_t			= device.lookup( *device.resolve_tag( 'T' ))
    before			= ( list( att_s.value ), list( att_t.value ))
    assert before == ( ['abc',''], ['wxyz',''] ), before

    failed			= 0
    # SSTRING: length byte says 97 ('a'), 2 bytes follow
    c				= session( PORT )
    rpy				= c.cip( write_tag( 'S', 0xda, 1, b'abc' ))
    after_s			= list( att_s.value )
    print( "request : Write Tag S SSTRING x1, data 61 62 63 (length byte 0x61 == 97, only 2 bytes follow)" )
    print( "observed: %s; tag S %r --> %r" % ( describe( rpy ), before[0], after_s ))
    print( "expected: error status or connection closed; tag S unchanged" )
    if after_s != before[0]:
        failed		       += 1
    # STRING: length 300, 3 bytes follow
    c				= session( PORT )
    rpy				= c.cip( write_tag( 'T', 0xd0, 1, struct.pack( '<H', 300 ) + b'pqr' ))
    after_t			= list( att_t.value )
    print( "request : Write Tag T STRING x1, length field 300, only 3 bytes follow" )
    print( "observed: %s; tag T %r --> %r" % ( describe( rpy ), before[1], after_t ))
    print( "expected: error status or connection closed; tag T unchanged" )
    if after_t != before[1]:
        failed		       += 1
    if failed:
        print( "CONTRADICTION: a string whose length field runs past the end of the request altered the tag (%d of 2 cases)" % failed )
        return 1
    print( "OK" )
    return 0

if __name__ == "__main__":
    sys.exit( main() )
