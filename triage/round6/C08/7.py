#!/usr/bin/env python
"""
C08 defect 7: per-peer state of the UDP service is never reclaimed; enough distinct peers take the
whole simulator down.

stats_for() creates a connections[<ip>_<port>] entry - an apidict, which owns a multiprocessing RLock
and Condition, ie. four POSIX semaphores, each one its own memory mapping - for every peer a datagram
arrives from.  enip_srv_tcp removes its entry when the connection ends; enip_srv_udp never does
(nor can it: UDP has no end of session, and nothing expires or bounds the table).  Each of the
~16,300 distinct source addresses (trivially forged with UDP; 24 bytes of a perfectly valid List
Identity each, < 400 KB in total) costs 4 mappings, until the process hits vm.max_map_count (65530):
the next apidict / thread / allocation fails with MemoryError / OSError, the UDP service stops
answering, and new TCP sessions are no longer served either - the property says that no input
takes the whole server down and that new sessions keep being served.

To stay within a minute, this program first uses up part of the process' mapping budget itself (46,000
semaphores == what 11,500 earlier UDP peers would have cost); then ~4,800 peers suffice instead of
~16,300.  Set PREALLOCATE=0 to watch the full-length run (~75 s).
"""
import logging
import socket
import struct
import sys
import threading
import time

import cpppo
from cpppo.server import enip
from cpppo.server.enip import device, logix
from cpppo.server.enip.main import main as enip_main

def start( port, tags ):
    device.lookup_reset()
    logix.setup_reset()
    control			= cpppo.apidict( enip.timeout, { 'done': False } )
    thr				= threading.Thread( target=enip_main, kwargs=dict(
        argv=[ '--no-config', '--no-udp', '--address', 'localhost:%d' % port ] + list( tags ),
        server={ 'control': control } ))
    thr.daemon			= True
    thr.start()
    for _ in range( 200 ):
        try:
            socket.create_connection( ('localhost',port), timeout=1 ).close()
            return control
        except Exception:
            time.sleep( .05 )
    raise RuntimeError( "simulator did not start" )

def hdr( cmd, data=b'', session=0 ):
    return struct.pack( '<HHII8sI', cmd, len( data ), session, 0, b'c08_____', 0 ) + data

def rrdata( payload, session, item_length=None ):
    cpf				= struct.pack( '<HHHHH', 2, 0, 0, 0xb2,
                                               len( payload ) if item_length is None else item_length ) + payload
    return hdr( 0x6f, struct.pack( '<IH', 0, 5 ) + cpf, session=session )

def sym( name ):
    b				= name.encode()
    return b'\x91' + struct.pack( 'B', len( b )) + b + ( b'\0' if len( b ) % 2 else b'' )

def epath( segs ):
    return struct.pack( 'B', len( segs ) // 2 ) + segs

def read_tag( name, elements ):
    return b'\x4c' + epath( sym( name )) + struct.pack( '<H', elements )

def write_tag( name, typ, elements, data, idx=None ):
    p				= sym( name ) + ( b'\x28' + struct.pack( 'B', idx ) if idx is not None else b'' )
    return b'\x4d' + epath( p ) + struct.pack( '<HH', typ, elements ) + data

def write_frag( name, typ, elements, offset, data ):
    return b'\x53' + epath( sym( name )) + struct.pack( '<HHI', typ, elements, offset ) + data

class session( object ):
    def __init__( self, port, timeout=10 ):
        self.s			= socket.create_connection( ('localhost',port), timeout=timeout )
        self.s.sendall( hdr( 0x65, struct.pack( '<HH', 1, 0 )))
        self.handle,		= struct.unpack( '<I', self.frame()[4:8] )

    def frame( self ):
        buf			= b''
        while len( buf ) < 24 or len( buf ) < 24 + struct.unpack( '<H', buf[2:4] )[0]:
            try:
                d		= self.s.recv( 4096 )
            except socket.timeout:
                return None
            except socket.error:
                return b''
            if not d:
                return b''
            buf		       += d
        return buf

    def raw( self, frame ):
        """Send a complete EtherNet/IP frame; returns the CIP reply payload, b'' if closed, None on timeout."""
        self.s.sendall( frame )
        f			= self.frame()
        return f[24+6+2+4+4:] if f else f

    def cip( self, req ):
        return self.raw( rrdata( req, self.handle ))

def tag( port, name, n, fmt ):
    c				= session( port )
    r				= c.cip( read_tag( name, n ))
    c.s.close()
    assert r and r[:4] == b'\xcc\x00\x00\x00', "Read Tag %s failed: %r" % ( name, r )
    return list( struct.unpack( '<%d%s' % ( n, fmt ), r[6:] ))

def describe( rpy ):
    if rpy is None:
        return "no reply (timeout)"
    if rpy == b'':
        return "connection closed"
    return "reply %s (CIP status 0x%02x)" % ( rpy.hex(), bytearray( rpy )[2] )
import multiprocessing
import os

PORT				= 44837

def tcp_served():
    try:
        c			= session( PORT, timeout=5 )
        r			= c.cip( read_tag( 'A', 1 ))
        c.s.close()
        return bool( r ) and r[:4] == b'\xcc\x00\x00\x00'
    except Exception as exc:
        return False

def main():
    logging.disable( logging.CRITICAL )
    device.lookup_reset()
    logix.setup_reset()
    control			= cpppo.apidict( enip.timeout, { 'done': False } )
    thr				= threading.Thread( target=enip_main, kwargs=dict(
        argv=[ '--no-config', '--address', 'localhost:%d' % PORT, 'A=INT[10]' ], server={ 'control': control } ))
    thr.daemon			= True
    thr.start()
    time.sleep( 1 )
    assert tcp_served(), "simulator not serving at start"

    keep			= [ multiprocessing.Semaphore() for _ in range( int( os.environ.get( 'PREALLOCATE', 46000 ))) ]
    peers			= 0
    failed			= None
    frame			= hdr( 0x63 )
    for sport in range( 10000, 30000 ):
        s			= socket.socket( socket.AF_INET, socket.SOCK_DGRAM )
        try:
            s.bind( ('127.0.0.1', sport) )
        except socket.error:
            s.close()
            continue
        s.settimeout( 2.0 )
        s.sendto( frame, ('127.0.0.1', PORT) )
        try:
            rpy,_		= s.recvfrom( 4096 )
            assert rpy[:2] == b'\x63\x00'
        except Exception as exc:
            failed		= "List Identity of UDP peer #%d (127.0.0.1:%d) not answered: %r" % ( peers + 1, sport, exc )
        s.close()
        if failed:
            break
        peers		       += 1
    tcp				= tcp_served()	# while the process is at its limit, as it would be after ~16,300 peers
    del keep[:]
    print( "request : valid 24-byte List Identity datagrams, each from a different source port" )
    print( "observed: %s; afterwards a new TCP session is %s" % (
        failed or ( "all %d peers answered" % peers ), "served" if tcp else "NOT served" ))
    print( "expected: every peer answered, whatever their number; new TCP sessions served" )
    if failed or not tcp:
        print( "CONTRADICTION: the per-peer entries of the UDP service are never released; %d peers exhausted the process" % peers )
        sys.stdout.flush()
        os._exit( 1 )	# the process may be too damaged for an orderly exit
    print( "OK" )
    return 0

if __name__ == "__main__":
    sys.exit( main() )
