#!/usr/bin/env python
"""
C08 defect 3: a SendRRData frame whose CPF item length runs past the end of the frame is executed.

The Common Packet Format data item (type 0x00B2) announces its own length.  If that length is larger
than what the EtherNet/IP frame actually carries (inconsistent length fields at two nesting levels:
the encapsulation header is consistent with the bytes sent, the CPF item is not), the item parser
just stops at the end of the frame: limit='..length' is only an upper bound and nobody checks that
the announced bytes were there.  The Write Tag inside is executed and answered with success.  The
same happens with an Unconnected Send whose .length cuts the embedded request short.
"""
import logging
import socket
import struct
import sys
import threading
import time

import cpppo
from cpppo.server import enip
from cpppo.server.enip import device, logix
from cpppo.server.enip.main import main as enip_main

def start( port, tags ):
    device.lookup_reset()
    logix.setup_reset()
    control			= cpppo.apidict( enip.timeout, { 'done': False } )
    thr				= threading.Thread( target=enip_main, kwargs=dict(
        argv=[ '--no-config', '--no-udp', '--address', 'localhost:%d' % port ] + list( tags ),
        server={ 'control': control } ))
    thr.daemon			= True
    thr.start()
    for _ in range( 200 ):
        try:
            socket.create_connection( ('localhost',port), timeout=1 ).close()
            return control
        except Exception:
            time.sleep( .05 )
    raise RuntimeError( "simulator did not start" )

def hdr( cmd, data=b'', session=0 ):
    return struct.pack( '<HHII8sI', cmd, len( data ), session, 0, b'c08_____', 0 ) + data

def rrdata( payload, session, item_length=None ):
    cpf				= struct.pack( '<HHHHH', 2, 0, 0, 0xb2,
                                               len( payload ) if item_length is None else item_length ) + payload
    return hdr( 0x6f, struct.pack( '<IH', 0, 5 ) + cpf, session=session )

def sym( name ):
    b				= name.encode()
    return b'\x91' + struct.pack( 'B', len( b )) + b + ( b'\0' if len( b ) % 2 else b'' )

def epath( segs ):
    return struct.pack( 'B', len( segs ) // 2 ) + segs

def read_tag( name, elements ):
    return b'\x4c' + epath( sym( name )) + struct.pack( '<H', elements )

def write_tag( name, typ, elements, data, idx=None ):
    p				= sym( name ) + ( b'\x28' + struct.pack( 'B', idx ) if idx is not None else b'' )
    return b'\x4d' + epath( p ) + struct.pack( '<HH', typ, elements ) + data

def write_frag( name, typ, elements, offset, data ):
    return b'\x53' + epath( sym( name )) + struct.pack( '<HHI', typ, elements, offset ) + data

class session( object ):
    def __init__( self, port, timeout=10 ):
        self.s			= socket.create_connection( ('localhost',port), timeout=timeout )
        self.s.sendall( hdr( 0x65, struct.pack( '<HH', 1, 0 )))
        self.handle,		= struct.unpack( '<I', self.frame()[4:8] )

    def frame( self ):
        buf			= b''
        while len( buf ) < 24 or len( buf ) < 24 + struct.unpack( '<H', buf[2:4] )[0]:
            try:
                d		= self.s.recv( 4096 )
            except socket.timeout:
                return None
            except socket.error:
                return b''
            if not d:
                return b''
            buf		       += d
        return buf

    def raw( self, frame ):
        """Send a complete EtherNet/IP frame; returns the CIP reply payload, b'' if closed, None on timeout."""
        self.s.sendall( frame )
        f			= self.frame()
        return f[24+6+2+4+4:] if f else f

    def cip( self, req ):
        return self.raw( rrdata( req, self.handle ))

def tag( port, name, n, fmt ):
    c				= session( port )
    r				= c.cip( read_tag( name, n ))
    c.s.close()
    assert r and r[:4] == b'\xcc\x00\x00\x00', "Read Tag %s failed: %r" % ( name, r )
    return list( struct.unpack( '<%d%s' % ( n, fmt ), r[6:] ))

def describe( rpy ):
    if rpy is None:
        return "no reply (timeout)"
    if rpy == b'':
        return "connection closed"
    return "reply %s (CIP status 0x%02x)" % ( rpy.hex(), bytearray( rpy )[2] )

PORT				= 44833

def unconnected( req, length ):
    return ( b'\x52\x02\x20\x06\x24\x01' + struct.pack( '<BBH', 5, 157, length ) + req
             + ( b'\0' if len( req ) % 2 else b'' ) + b'\x01\x00\x01\x00' )

def main():
    logging.disable( logging.CRITICAL )
    start( PORT, [ 'A=INT[10]' ] )
    before			= tag( PORT, 'A', 10, 'h' )
    failed			= 0

    # 1) CPF item[1].length == actual + 50
    c				= session( PORT )
    req				= write_tag( 'A', 0xc3, 1, struct.pack( '<h', 31 ))
    rpy				= c.raw( rrdata( req, c.handle, item_length=len( req ) + 50 ))
    after			= tag( PORT, 'A', 10, 'h' )
    print( "request : SendRRData, CPF item 0xB2 length %d but only %d bytes in the frame, carrying Write Tag A = 31" % (
        len( req ) + 50, len( req )))
    print( "observed: %s; tag A %r --> %r" % ( describe( rpy ), before, after ))
    print( "expected: error status or connection closed; tag A unchanged" )
    if after != before:
        failed		       += 1
    before			= after

    # 2) Unconnected Send .length two bytes short: the embedded Write Tag (2 elements) loses its last element
    c				= session( PORT )
    req				= write_tag( 'A', 0xc3, 2, struct.pack( '<2h', 33, 34 ))
    rpy				= c.cip( unconnected( req, len( req ) - 2 ))
    after			= tag( PORT, 'A', 10, 'h' )
    print( "request : Unconnected Send .length %d around a %d-byte Write Tag A INT x2 = 33,34" % ( len( req ) - 2, len( req )))
    print( "observed: %s; tag A %r --> %r" % ( describe( rpy ), before, after ))
    print( "expected: error status or connection closed; tag A unchanged" )
    if after != before:
        failed		       += 1
    if failed:
        print( "CONTRADICTION: %d of 2 frames with inconsistent inner length fields altered the tag" % failed )
        return 1
    print( "OK" )
    return 0

if __name__ == "__main__":
    sys.exit( main() )
