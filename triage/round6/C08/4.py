#!/usr/bin/env python
"""
C08 defect 4: Write Tag Fragmented with a byte offset in the middle of an element alters the tag.

The offset of a Read/Write Tag Fragmented is a byte offset into the tag's data and must fall on an
element boundary.  Logix.reply_elements rounds it down to the element containing it and returns the
remainder as 'offremains'; the read branch of Logix.request refuses a non-zero remainder
( assert offremains == 0 or ... ), the write branch never looks at it.  A Write Tag Fragmented on
an INT tag with offset 3 (or on a DINT tag with offset 5, 6, 7) - eg. an offset field with one bit
flipped - is therefore accepted, stored one element lower than any boundary the offset could mean,
and answered with success, while the very same offset is refused for a read.
"""
import logging
import socket
import struct
import sys
import threading
import time

import cpppo
from cpppo.server import enip
from cpppo.server.enip import device, logix
from cpppo.server.enip.main import main as enip_main

def start( port, tags ):
    device.lookup_reset()
    logix.setup_reset()
    control			= cpppo.apidict( enip.timeout, { 'done': False } )
    thr				= threading.Thread( target=enip_main, kwargs=dict(
        argv=[ '--no-config', '--no-udp', '--address', 'localhost:%d' % port ] + list( tags ),
        server={ 'control': control } ))
    thr.daemon			= True
    thr.start()
    for _ in range( 200 ):
        try:
            socket.create_connection( ('localhost',port), timeout=1 ).close()
            return control
        except Exception:
            time.sleep( .05 )
    raise RuntimeError( "simulator did not start" )

def hdr( cmd, data=b'', session=0 ):
    return struct.pack( '<HHII8sI', cmd, len( data ), session, 0, b'c08_____', 0 ) + data

def rrdata( payload, session, item_length=None ):
    cpf				= struct.pack( '<HHHHH', 2, 0, 0, 0xb2,
                                               len( payload ) if item_length is None else item_length ) + payload
    return hdr( 0x6f, struct.pack( '<IH', 0, 5 ) + cpf, session=session )

def sym( name ):
    b				= name.encode()
    return b'\x91' + struct.pack( 'B', len( b )) + b + ( b'\0' if len( b ) % 2 else b'' )

def epath( segs ):
    return struct.pack( 'B', len( segs ) // 2 ) + segs

def read_tag( name, elements ):
    return b'\x4c' + epath( sym( name )) + struct.pack( '<H', elements )

def write_tag( name, typ, elements, data, idx=None ):
    p				= sym( name ) + ( b'\x28' + struct.pack( 'B', idx ) if idx is not None else b'' )
    return b'\x4d' + epath( p ) + struct.pack( '<HH', typ, elements ) + data

def write_frag( name, typ, elements, offset, data ):
    return b'\x53' + epath( sym( name )) + struct.pack( '<HHI', typ, elements, offset ) + data

class session( object ):
    def __init__( self, port, timeout=10 ):
        self.s			= socket.create_connection( ('localhost',port), timeout=timeout )
        self.s.sendall( hdr( 0x65, struct.pack( '<HH', 1, 0 )))
        self.handle,		= struct.unpack( '<I', self.frame()[4:8] )

    def frame( self ):
        buf			= b''
        while len( buf ) < 24 or len( buf ) < 24 + struct.unpack( '<H', buf[2:4] )[0]:
            try:
                d		= self.s.recv( 4096 )
            except socket.timeout:
                return None
            except socket.error:
                return b''
            if not d:
                return b''
            buf		       += d
        return buf

    def raw( self, frame ):
        """Send a complete EtherNet/IP frame; returns the CIP reply payload, b'' if closed, None on timeout."""
        self.s.sendall( frame )
        f			= self.frame()
        return f[24+6+2+4+4:] if f else f

    def cip( self, req ):
        return self.raw( rrdata( req, self.handle ))

def tag( port, name, n, fmt ):
    c				= session( port )
    r				= c.cip( read_tag( name, n ))
    c.s.close()
    assert r and r[:4] == b'\xcc\x00\x00\x00', "Read Tag %s failed: %r" % ( name, r )
    return list( struct.unpack( '<%d%s' % ( n, fmt ), r[6:] ))

def describe( rpy ):
    if rpy is None:
        return "no reply (timeout)"
    if rpy == b'':
        return "connection closed"
    return "reply %s (CIP status 0x%02x)" % ( rpy.hex(), bytearray( rpy )[2] )

PORT				= 44834

def read_frag( name, elements, offset ):
    return b'\x52' + epath( sym( name )) + struct.pack( '<HI', elements, offset )

def unconnected( req ):
    # Read Tag Fragmented shares its service code 0x52 with Unconnected Send, so it must travel inside one
    return ( b'\x52\x02\x20\x06\x24\x01' + struct.pack( '<BBH', 5, 157, len( req )) + req
             + ( b'\0' if len( req ) % 2 else b'' ) + b'\x01\x00\x01\x00' )

def main():
    logging.disable( logging.CRITICAL )
    start( PORT, [ 'A=INT[10]', 'B=DINT[4]' ] )
    failed			= 0

    c				= session( PORT )
    rpy				= c.cip( unconnected( read_frag( 'A', 10, 3 )))
    print( "request : Read Tag Fragmented A INT x10 offset 3" )
    print( "observed: %s" % describe( rpy ))
    assert not rpy or bytearray( rpy )[2] not in (0x00, 0x06), "a mid-element read offset is expected to be refused"

    before			= tag( PORT, 'A', 10, 'h' )
    c				= session( PORT )
    rpy				= c.cip( write_frag( 'A', 0xc3, 10, 3, struct.pack( '<2h', 11, 12 )))
    after			= tag( PORT, 'A', 10, 'h' )
    print( "request : Write Tag Fragmented A INT x10, byte offset 3 (middle of element 1), data 11,12" )
    print( "observed: %s; tag A %r --> %r" % ( describe( rpy ), before, after ))
    print( "expected: error status (0xFF 0x2104/0x2105) or connection closed; tag A unchanged" )
    if after != before:
        failed		       += 1

    before			= tag( PORT, 'B', 4, 'i' )
    c				= session( PORT )
    rpy				= c.cip( write_frag( 'B', 0xc4, 4, 6, struct.pack( '<i', -1 )))
    after			= tag( PORT, 'B', 4, 'i' )
    print( "request : Write Tag Fragmented B DINT x4, byte offset 6 (middle of element 1), data -1" )
    print( "observed: %s; tag B %r --> %r" % ( describe( rpy ), before, after ))
    print( "expected: error status or connection closed; tag B unchanged" )
    if after != before:
        failed		       += 1
    if failed:
        print( "CONTRADICTION: %d of 2 Write Tag Fragmented requests with a mid-element offset altered the tag" % failed )
        return 1
    print( "OK" )
    return 0

if __name__ == "__main__":
    sys.exit( main() )
