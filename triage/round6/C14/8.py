"""
C14 defect 8: an index with more than one dimension on a ( one-dimensional ) simulator tag is not
refused: pylogix Read( 'Q[1,99]' ) sends the path [symbolic Q][element 1][element 99]; the simulator
answers Success with the value of Q[1], and Write( 'Q[2,5]', 77 ) overwrites Q[2] and reports
Success.  Logix.reply_elements means to refuse this ( assert len( index ) == 1, "Unsupported/
Multi-dimensional index" ), but device.resolve_element stops at the first element segment ( `break` )
and never returns more than one index, so the check cannot fire.  Element Q[1,99] does not exist in
the array model ( Q is DINT[6] ); a real controller answers such a request with an error
( 0xFF/0x2105 or 0x05 ), the simulator's own text promises an error too.

Expected: an error status ( like the out-of-range Q[7] gets ), and Q unchanged by the write.
"""
import socket, sys, threading, time

import cpppo
from cpppo.server import enip
from cpppo.server.enip import device, logix
from cpppo.server.enip.main import main as enip_main
import pylogix

PORT = 44818

def start_server( tags ):
    device.lookup_reset(); logix.setup_reset()
    control = cpppo.apidict( enip.timeout, { 'done': False } )
    kwargs = dict( argv=[ '--address', 'localhost:%d' % PORT ] + list( tags ), server={ 'control': control } )
    thr = threading.Thread( target=enip_main, kwargs=kwargs )
    thr.daemon = True
    thr.start()
    for _ in range( 100 ):
        try:
            socket.create_connection( ('localhost', PORT), timeout=.2 ).close()
            break
        except Exception:
            time.sleep( .1 )
    return control

def main():
    control = start_server( [ 'Q=DINT[6]' ] )
    bad = []
    try:
        with pylogix.PLC() as comm:
            comm.IPAddress = 'localhost'
            comm.conn.Port = PORT
            comm.SocketTimeout = 5
            assert comm.conn.connect()[0]
            model = [ 10, 11, 12, 13, 14, 15 ]
            assert comm.Write( 'Q[0]', model ).Status == 'Success'
            r = comm.Read( 'Q[7]' )
            print( "Read  Q[7]    -> %s %r   (out of range: refused, as documented)" % ( r.Status, r.Value ))
            assert r.Status != 'Success'
            for tag in ( 'Q[1,2]', 'Q[1,99]', 'Q[1,2,3]' ):
                r = comm.Read( tag )
                print( "Read  %-8s-> %s %r   (expected an error status)" % ( tag, r.Status, r.Value ))
                if r.Status == 'Success':
                    bad.append( "Read %s answered Success, value %r" % ( tag, r.Value ))
            w = comm.Write( 'Q[2,5]', 77 )
            after = comm.Read( 'Q[0]', 6 ).Value
            print( "Write Q[2,5]  -> %s; Q is now %r   (expected an error status and %r)" % ( w.Status, after, model ))
            if w.Status == 'Success' or after != model:
                bad.append( "Write Q[2,5] answered %s and changed the model to %r" % ( w.Status, after ))
    finally:
        control.done = True
    if bad:
        for b in bad:
            print( "CONTRADICTION: " + b )
        sys.exit( 1 )
    print( "OK" )

if __name__ == "__main__":
    main()
