"""
C14 defect 4 ( borderline: concerns a service the simulator does not implement ): a single request
with a service code the simulator does not support - eg. the Logix "Read Modify Write Tag" 0x4E that
pylogix uses for Write( "X.3", 1 ) ( write one bit of a DINT tag ) - is not answered with the CIP
general status 0x08 "Service not supported", but with a bare encapsulation header ( status 0x08, no
payload ), and the simulator drops the TCP session: pylogix raises struct.error and has lost its
connection.  The very same request as a member of a Multiple Service Packet IS answered properly
( service 0xCE, status 0x08; neighbours unaffected ).  Cause: the unknown request is swallowed by the
wild-card *reply* parser, Object.request sets status 0x08, but Object.produce then takes the "generic
service code request" branch ( no 0x80 bit yet ) and fails on the missing .path; nobody above
Connection_Manager.request catches that for a single request.

Expected: reply 0xCE, status 0x08 on the connected session, which stays usable.
"""
import socket, struct, sys, threading, time

import cpppo
from cpppo.server import enip
from cpppo.server.enip import device, logix
from cpppo.server.enip.main import main as enip_main

PORT = 44818

def start_server( tags ):
    device.lookup_reset(); logix.setup_reset()
    control = cpppo.apidict( enip.timeout, { 'done': False } )
    kwargs = dict( argv=[ '--address', 'localhost:%d' % PORT ] + list( tags ), server={ 'control': control } )
    thr = threading.Thread( target=enip_main, kwargs=kwargs )
    thr.daemon = True
    thr.start()
    for _ in range( 100 ):
        try:
            socket.create_connection( ('localhost', PORT), timeout=.2 ).close()
            break
        except Exception:
            time.sleep( .1 )
    return control

class Raw( object ):
    """Byte-level EtherNet/IP client written from the CIP Vol.1/Vol.2 tables; shares no code with cpppo."""
    def __init__( self, host='localhost', port=PORT, timeout=3 ):
        self.s = socket.create_connection( (host, port), timeout=timeout )
        self.session = 0
        self.seq = 0
    def close( self ):
        self.s.close()
    def _recv( self, n ):
        b = b''
        while len( b ) < n:
            c = self.s.recv( n - len( b ))
            if not c:
                raise EOFError( "connection closed by simulator after %d of %d bytes" % ( len( b ), n ))
            b += c
        return b
    def encap( self, cmd, payload, ctx=b'CTX12345' ):
        self.s.sendall( struct.pack( '<HHII8sI', cmd, len( payload ), self.session, 0, ctx, 0 ) + payload )
        rcmd, rlen, rsess, rstat, rctx, ropt = struct.unpack( '<HHII8sI', self._recv( 24 ))
        body = self._recv( rlen ) if rlen else b''
        return dict( cmd=rcmd, length=rlen, session=rsess, status=rstat, ctx=rctx, options=ropt, body=body )
    def register( self ):
        r = self.encap( 0x65, struct.pack( '<HH', 1, 0 ))
        assert r['cmd'] == 0x65 and r['status'] == 0 and r['session'], r
        self.session = r['session']
    @staticmethod
    def cpf( body ):
        iface, tmo, cnt = struct.unpack_from( '<IHH', body, 0 )
        off = 8; items = []
        for _ in range( cnt ):
            t, l = struct.unpack_from( '<HH', body, off ); off += 4
            items.append( (t, body[off:off+l]) ); off += l
        assert off == len( body ), "trailing bytes after CPF items: %r" % body[off:]
        return items
    def rrdata( self, cip ):
        pl = struct.pack( '<IHH', 0, 5, 2 ) + struct.pack( '<HH', 0, 0 ) + struct.pack( '<HH', 0xB2, len( cip )) + cip
        r = self.encap( 0x6F, pl )
        assert r['status'] == 0, "SendRRData encapsulation status %#x" % r['status']
        items = self.cpf( r['body'] )
        assert [ t for t,_ in items ] == [ 0x0000, 0x00B2 ], items
        return items[1][1]
    def forward_open( self, to_id=0x11223344, serial=0x4242, vendor=0x1337, oserial=42, size=500,
                      path=b'\x01\x00\x20\x02\x24\x01' ):
        ncp = struct.pack( '<H', 0x4200 | size )	# point-to-point, variable, <size> bytes
        cip = struct.pack( '<BBBBBB', 0x54, 2, 0x20, 0x06, 0x24, 0x01 )
        cip += struct.pack( '<BBIIHHIB3x', 0x0A, 0x0E, 0x20000002, to_id, serial, vendor, oserial, 3 )
        cip += struct.pack( '<I', 0x00201234 ) + ncp + struct.pack( '<I', 0x00204001 ) + ncp + b'\xA3'
        cip += struct.pack( '<B', len( path ) // 2 ) + path
        rep = self.rrdata( cip )
        assert rep[0] == 0xD4 and rep[1] == 0 and rep[2] == 0 and rep[3] == 0, "Forward Open refused: %r" % rep
        self.ot_id, self.to_id = struct.unpack_from( '<II', rep, 4 )
        assert self.to_id == to_id, "Forward Open reply T->O id %#x != requested %#x" % ( self.to_id, to_id )
        self.fo_req = dict( serial=serial, vendor=vendor, oserial=oserial, path=path )
    def forward_close( self ):
        q = self.fo_req
        cip = struct.pack( '<BBBBBB', 0x4E, 2, 0x20, 0x06, 0x24, 0x01 )
        cip += struct.pack( '<BBHHI', 0x0A, 0x0E, q['serial'], q['vendor'], q['oserial'] )
        cip += struct.pack( '<BB', len( q['path'] ) // 2, 0 ) + q['path']
        rep = self.rrdata( cip )
        assert rep[0] == 0xCE and rep[2] == 0, "Forward Close refused: %r" % rep
    def unit( self, cip, conn=None ):
        """SendUnitData; returns (encapsulation status, reply connection id, reply sequence, message router reply)"""
        self.seq = ( self.seq + 1 ) & 0xFFFF
        if conn is None:
            conn = self.ot_id
        pl = struct.pack( '<IHH', 0, 0, 2 ) + struct.pack( '<HHI', 0xA1, 4, conn ) \
             + struct.pack( '<HHH', 0xB1, len( cip ) + 2, self.seq ) + cip
        r = self.encap( 0x70, pl )
        if r['status'] != 0 or not r['body']:
            return r['status'], None, None, None
        items = self.cpf( r['body'] )
        assert items[0][0] == 0xA1 and len( items[0][1] ) == 4 and items[1][0] == 0xB1, items
        return 0, struct.unpack( '<I', items[0][1] )[0], struct.unpack_from( '<H', items[1][1] )[0], items[1][1][2:]

def symbolic( name, *elems ):
    p = b''
    for part in name.split( '.' ):
        pb = part.encode( 'latin-1' )
        p += struct.pack( '<BB', 0x91, len( pb )) + pb + ( b'\x00' if len( pb ) % 2 else b'' )
    for e in elems:
        p += struct.pack( '<BB', 0x28, e ) if e < 256 else struct.pack( '<BBH', 0x29, 0, e )
    return p
def request( service, path, data=b'' ):
    return struct.pack( '<BB', service, len( path ) // 2 ) + path + data
def read_tag( name, elems=(), count=1 ):
    return request( 0x4C, symbolic( name, *elems ), struct.pack( '<H', count ))
def write_tag( name, elems, typ, fmt, values ):
    return request( 0x4D, symbolic( name, *elems ), struct.pack( '<HH', typ, len( values ))
                    + b''.join( struct.pack( fmt, v ) for v in values ))
def reply( rep ):
    """Message Router reply --> (service, general status, [extended status words], data)"""
    svc, rsv, st, extn = struct.unpack_from( '<BBBB', rep, 0 )
    assert rsv == 0, "reserved byte of the reply is %#x" % rsv
    return svc, st, list( struct.unpack_from( '<%dH' % extn, rep, 4 )), rep[4+2*extn:]

def main():
    control = start_server( [ 'X=DINT', 'A=DINT[4]' ] )
    bad = []
    try:
        c = Raw(); c.register(); c.forward_open()
        rmw = request( 0x4E, symbolic( 'X' ), struct.pack( '<HII', 4, 0x00000008, 0xFFFFFFFF ))
        try:
            st, conn, seq, rep = c.unit( rmw )
            got = reply( rep ) if rep is not None else "encapsulation status %#x, no payload" % st
        except ( EOFError, socket.error ) as exc:
            got = "no answer (%s)" % exc
        print( "single Read Modify Write Tag (0x4E): %r   (expected (0xCE, 0x08, [], b''))" % ( got, ))
        if not ( isinstance( got, tuple ) and got[:2] == ( 0xCE, 0x08 )):
            bad.append( "unsupported service answered with %s" % ( got, ))
        try:
            st, conn, seq, rep = c.unit( read_tag( 'A', (0,), 2 ))
            again = reply( rep ) if rep is not None else "encapsulation status %#x" % st
        except ( EOFError, socket.error ) as exc:
            again = "session dropped by the simulator (%s)" % exc
        print( "next request on the same connection: %r" % ( again, ))
        if not ( isinstance( again, tuple ) and again[:2] == ( 0xCC, 0 )):
            bad.append( "after the unsupported service: %s" % ( again, ))
    finally:
        control.done = True
    if bad:
        for b in bad:
            print( "CONTRADICTION: " + b )
        sys.exit( 1 )
    print( "OK" )

if __name__ == "__main__":
    main()
