"""
C14 defect 1: a tag whose name extends the name of another tag by a '.'-separated member ( 'M' and
'M.X', both legal simulator tags ) cannot be read or written by any client: the request path
[symbolic 'M'][symbolic 'X'] is resolved greedily to tag 'M' at the first segment, and the remaining
segment 'X' is then reported as an unknown symbol ( status 0x05 ).  Without the tag 'M', the same
'M.X' works ( see 'U.V' below ).

Expected: pylogix Write('M.X', 5) / Read('M.X') succeed and Read returns 5 ( INT ), leaving M untouched.
"""
import socket, sys, threading, time

import cpppo
from cpppo.server import enip
from cpppo.server.enip import device, logix
from cpppo.server.enip.main import main as enip_main
import pylogix

PORT = 44818

def start_server( tags ):
    device.lookup_reset(); logix.setup_reset()
    control = cpppo.apidict( enip.timeout, { 'done': False } )
    kwargs = dict( argv=[ '--address', 'localhost:%d' % PORT ] + list( tags ), server={ 'control': control } )
    thr = threading.Thread( target=enip_main, kwargs=kwargs )
    thr.daemon = True
    thr.start()
    for _ in range( 100 ):
        try:
            socket.create_connection( ('localhost', PORT), timeout=.2 ).close()
            break
        except Exception:
            time.sleep( .1 )
    return control

def main():
    control = start_server( [ 'M=DINT', 'M.X=INT', 'U.V=INT' ] )
    bad = []
    try:
        with pylogix.PLC() as comm:
            comm.IPAddress = 'localhost'
            comm.conn.Port = PORT
            comm.SocketTimeout = 5
            assert comm.conn.connect()[0]
            for tag, val in ( ( 'U.V', 3 ), ( 'M', 77 ), ( 'M.X', 5 ) ):
                w = comm.Write( tag, val )
                r = comm.Read( tag )
                print( "%-4s write: %-26s read: %-26s value: %r (expected Success/Success/%r)" % (
                    tag, w.Status, r.Status, r.Value, val ))
                if w.Status != 'Success' or r.Status != 'Success' or r.Value != val:
                    bad.append( tag )
    finally:
        control.done = True
    if bad:
        print( "CONTRADICTION: tag(s) %s of the simulator cannot be accessed by the independent client" % ( bad, ))
        sys.exit( 1 )
    print( "OK" )

if __name__ == "__main__":
    main()
