"""
C14 defect 3: Write Tag Fragmented of a narrower type into a wider tag ( INT data into a DINT array,
which the simulator documents as allowed: "We'll allow data payloads of more restricted signed types
into Attributes of a more spacious signed type" ) puts every fragment but the first at the wrong
element: the request's byte offset counts bytes of the *transmitted* type ( 2 per INT ), but
Logix.reply_elements divides it by the size of the *tag's* type ( 4 per DINT ).  Every fragment is
answered with status 0x00.

pylogix: Write( 'W[0]', [0..599], datatype=0xC3 ) over a 500-byte connection -> 4 fragments at byte
offsets 0, 388, 776, 1164 ( = elements 0, 194, 388, 582 ); the simulator stores them at elements
0, 97, 194, 291.

Expected: either every fragment is refused ( 0xFF / 0x2107 ), or W == [0..599] afterwards.
"""
import socket, sys, threading, time

import cpppo
from cpppo.server import enip
from cpppo.server.enip import device, logix
from cpppo.server.enip.main import main as enip_main
import pylogix

PORT = 44818

def start_server( tags ):
    device.lookup_reset(); logix.setup_reset()
    control = cpppo.apidict( enip.timeout, { 'done': False } )
    kwargs = dict( argv=[ '--address', 'localhost:%d' % PORT ] + list( tags ), server={ 'control': control } )
    thr = threading.Thread( target=enip_main, kwargs=kwargs )
    thr.daemon = True
    thr.start()
    for _ in range( 100 ):
        try:
            socket.create_connection( ('localhost', PORT), timeout=.2 ).close()
            break
        except Exception:
            time.sleep( .1 )
    return control

def main():
    control = start_server( [ 'W=DINT[600]' ] )
    try:
        vals = list( range( 600 ))
        with pylogix.PLC() as comm:
            comm.IPAddress = 'localhost'
            comm.conn.Port = PORT
            comm.SocketTimeout = 5
            comm.ConnectionSize = 500
            assert comm.conn.connect()[0]
            w = comm.Write( 'W[0]', vals, datatype=0xC3 )	# INT payload, fragmented ( 194 elements per request )
        with pylogix.PLC() as comm:					# fresh client: learns the tag's real type
            comm.IPAddress = 'localhost'
            comm.conn.Port = PORT
            comm.SocketTimeout = 5
            assert comm.conn.connect()[0]
            r = comm.Read( 'W[0]', 600 )
    finally:
        control.done = True
    print( "fragmented write of INT data into DINT[600]: status %r" % ( w.Status, ))
    print( "read back: status %r; W[95:100] = %r, W[192:197] = %r, W[595:600] = %r" % (
        r.Status, r.Value[95:100], r.Value[192:197], r.Value[595:600] ))
    wrong = [ i for i,(a,b) in enumerate( zip( r.Value, vals )) if a != b ]
    if w.Status == 'Success' and wrong:
        print( "CONTRADICTION: write reported Success, but %d of 600 elements differ from the values written "
               "(first at W[%d] == %r, expected %r)" % ( len( wrong ), wrong[0], r.Value[wrong[0]], vals[wrong[0]] ))
        sys.exit( 1 )
    print( "OK" )

if __name__ == "__main__":
    main()
