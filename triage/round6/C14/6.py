"""
C14 defect 6: the List Identity reply ( UCMM.list_identity ) and Get Attributes All of the Identity
object fail for legal identity values above 0x7FFF.  CIP defines Vendor ID, Device Type, Product Code
as UINT and Revision as two USINTs ( major, minor ), but device.Identity declares attributes 1-4 as
INT ( signed ) and list_identity fetches them with `d.INT`; configuring eg. "Product Code Number = 40000"
( or a revision whose minor byte is >= 128, eg. 20.200 == 51220 ) makes Attribute.produce raise
struct.error.  List Identity is then answered with a bare encapsulation header, status 0x08 and no
identity item, and pylogix GetDeviceProperties() reports "Service not supported".

Expected: a List Identity reply whose CPF item 0x000C carries product code 40000 ( bytes 40 9C ).
"""
import socket, struct, sys, threading, time

import cpppo
from cpppo.server import enip
from cpppo.server.enip import device, logix
from cpppo.server.enip.main import main as enip_main

PORT = 44818

def start_server( tags ):
    device.lookup_reset(); logix.setup_reset()
    control = cpppo.apidict( enip.timeout, { 'done': False } )
    kwargs = dict( argv=[ '--address', 'localhost:%d' % PORT ] + list( tags ), server={ 'control': control } )
    thr = threading.Thread( target=enip_main, kwargs=kwargs )
    thr.daemon = True
    thr.start()
    for _ in range( 100 ):
        try:
            socket.create_connection( ('localhost', PORT), timeout=.2 ).close()
            break
        except Exception:
            time.sleep( .1 )
    return control

class Raw( object ):
    """Byte-level EtherNet/IP client written from the CIP Vol.1/Vol.2 tables; shares no code with cpppo."""
    def __init__( self, host='localhost', port=PORT, timeout=3 ):
        self.s = socket.create_connection( (host, port), timeout=timeout )
        self.session = 0
        self.seq = 0
    def close( self ):
        self.s.close()
    def _recv( self, n ):
        b = b''
        while len( b ) < n:
            c = self.s.recv( n - len( b ))
            if not c:
                raise EOFError( "connection closed by simulator after %d of %d bytes" % ( len( b ), n ))
            b += c
        return b
    def encap( self, cmd, payload, ctx=b'CTX12345' ):
        self.s.sendall( struct.pack( '<HHII8sI', cmd, len( payload ), self.session, 0, ctx, 0 ) + payload )
        rcmd, rlen, rsess, rstat, rctx, ropt = struct.unpack( '<HHII8sI', self._recv( 24 ))
        body = self._recv( rlen ) if rlen else b''
        return dict( cmd=rcmd, length=rlen, session=rsess, status=rstat, ctx=rctx, options=ropt, body=body )
    def register( self ):
        r = self.encap( 0x65, struct.pack( '<HH', 1, 0 ))
        assert r['cmd'] == 0x65 and r['status'] == 0 and r['session'], r
        self.session = r['session']
    @staticmethod
    def cpf( body ):
        iface, tmo, cnt = struct.unpack_from( '<IHH', body, 0 )
        off = 8; items = []
        for _ in range( cnt ):
            t, l = struct.unpack_from( '<HH', body, off ); off += 4
            items.append( (t, body[off:off+l]) ); off += l
        assert off == len( body ), "trailing bytes after CPF items: %r" % body[off:]
        return items
    def rrdata( self, cip ):
        pl = struct.pack( '<IHH', 0, 5, 2 ) + struct.pack( '<HH', 0, 0 ) + struct.pack( '<HH', 0xB2, len( cip )) + cip
        r = self.encap( 0x6F, pl )
        assert r['status'] == 0, "SendRRData encapsulation status %#x" % r['status']
        items = self.cpf( r['body'] )
        assert [ t for t,_ in items ] == [ 0x0000, 0x00B2 ], items
        return items[1][1]
    def forward_open( self, to_id=0x11223344, serial=0x4242, vendor=0x1337, oserial=42, size=500,
                      path=b'\x01\x00\x20\x02\x24\x01' ):
        ncp = struct.pack( '<H', 0x4200 | size )	# point-to-point, variable, <size> bytes
        cip = struct.pack( '<BBBBBB', 0x54, 2, 0x20, 0x06, 0x24, 0x01 )
        cip += struct.pack( '<BBIIHHIB3x', 0x0A, 0x0E, 0x20000002, to_id, serial, vendor, oserial, 3 )
        cip += struct.pack( '<I', 0x00201234 ) + ncp + struct.pack( '<I', 0x00204001 ) + ncp + b'\xA3'
        cip += struct.pack( '<B', len( path ) // 2 ) + path
        rep = self.rrdata( cip )
        assert rep[0] == 0xD4 and rep[1] == 0 and rep[2] == 0 and rep[3] == 0, "Forward Open refused: %r" % rep
        self.ot_id, self.to_id = struct.unpack_from( '<II', rep, 4 )
        assert self.to_id == to_id, "Forward Open reply T->O id %#x != requested %#x" % ( self.to_id, to_id )
        self.fo_req = dict( serial=serial, vendor=vendor, oserial=oserial, path=path )
    def forward_close( self ):
        q = self.fo_req
        cip = struct.pack( '<BBBBBB', 0x4E, 2, 0x20, 0x06, 0x24, 0x01 )
        cip += struct.pack( '<BBHHI', 0x0A, 0x0E, q['serial'], q['vendor'], q['oserial'] )
        cip += struct.pack( '<BB', len( q['path'] ) // 2, 0 ) + q['path']
        rep = self.rrdata( cip )
        assert rep[0] == 0xCE and rep[2] == 0, "Forward Close refused: %r" % rep
    def unit( self, cip, conn=None ):
        """SendUnitData; returns (encapsulation status, reply connection id, reply sequence, message router reply)"""
        self.seq = ( self.seq + 1 ) & 0xFFFF
        if conn is None:
            conn = self.ot_id
        pl = struct.pack( '<IHH', 0, 0, 2 ) + struct.pack( '<HHI', 0xA1, 4, conn ) \
             + struct.pack( '<HHH', 0xB1, len( cip ) + 2, self.seq ) + cip
        r = self.encap( 0x70, pl )
        if r['status'] != 0 or not r['body']:
            return r['status'], None, None, None
        items = self.cpf( r['body'] )
        assert items[0][0] == 0xA1 and len( items[0][1] ) == 4 and items[1][0] == 0xB1, items
        return 0, struct.unpack( '<I', items[0][1] )[0], struct.unpack_from( '<H', items[1][1] )[0], items[1][1][2:]

def symbolic( name, *elems ):
    p = b''
    for part in name.split( '.' ):
        pb = part.encode( 'latin-1' )
        p += struct.pack( '<BB', 0x91, len( pb )) + pb + ( b'\x00' if len( pb ) % 2 else b'' )
    for e in elems:
        p += struct.pack( '<BB', 0x28, e ) if e < 256 else struct.pack( '<BBH', 0x29, 0, e )
    return p
def request( service, path, data=b'' ):
    return struct.pack( '<BB', service, len( path ) // 2 ) + path + data
def read_tag( name, elems=(), count=1 ):
    return request( 0x4C, symbolic( name, *elems ), struct.pack( '<H', count ))
def write_tag( name, elems, typ, fmt, values ):
    return request( 0x4D, symbolic( name, *elems ), struct.pack( '<HH', typ, len( values ))
                    + b''.join( struct.pack( fmt, v ) for v in values ))
def reply( rep ):
    """Message Router reply --> (service, general status, [extended status words], data)"""
    svc, rsv, st, extn = struct.unpack_from( '<BBBB', rep, 0 )
    assert rsv == 0, "reserved byte of the reply is %#x" % rsv
    return svc, st, list( struct.unpack_from( '<%dH' % extn, rep, 4 )), rep[4+2*extn:]
import os, tempfile
import pylogix

def main():
    cfg = tempfile.NamedTemporaryFile( 'w', suffix='.cfg', delete=False )
    cfg.write( "[Identity]\nProduct Code Number = 40000\n" )
    cfg.close()
    device.lookup_reset(); logix.setup_reset()
    control = cpppo.apidict( enip.timeout, { 'done': False } )
    kwargs = dict( argv=[ '--address', 'localhost:%d' % PORT, '-c', cfg.name, 'A=DINT' ], server={ 'control': control } )
    thr = threading.Thread( target=enip_main, kwargs=kwargs )
    thr.daemon = True
    thr.start()
    for _ in range( 100 ):
        try:
            socket.create_connection( ('localhost', PORT), timeout=.2 ).close()
            break
        except Exception:
            time.sleep( .1 )
    bad = []
    try:
        c = Raw()
        r = c.encap( 0x63, b'' )
        print( "List Identity: encapsulation status %#x, %d payload bytes" % ( r['status'], r['length'] ))
        code = None
        if r['status'] == 0 and r['body']:
            cnt, typ, ln = struct.unpack_from( '<HHH', r['body'], 0 )
            assert ( cnt, typ ) == ( 1, 0x000C ), ( cnt, typ )
            code, = struct.unpack_from( '<H', r['body'], 6 + 2 + 16 + 4 )	# version, sockaddr, vendor, device type
        print( "  product code in the identity item: %r (expected 40000)" % ( code, ))
        if code != 40000:
            bad.append( "List Identity with product code 40000 configured: status %#x, product code %r" % ( r['status'], code ))
        try:
            c.close()
        except Exception:
            pass
        with pylogix.PLC() as comm:
            comm.IPAddress = 'localhost'
            comm.conn.Port = PORT
            comm.SocketTimeout = 5
            p = comm.GetDeviceProperties()
            print( "pylogix GetDeviceProperties: %s, ProductCode %r" % ( p.Status, getattr( p.Value, 'ProductCode', None )))
            if p.Status != 'Success' or p.Value.ProductCode != 40000:
                bad.append( "pylogix GetDeviceProperties: %s" % p.Status )
    finally:
        control.done = True
        os.unlink( cfg.name )
    if bad:
        for b in bad:
            print( "CONTRADICTION: " + b )
        sys.exit( 1 )
    print( "OK" )

if __name__ == "__main__":
    main()
