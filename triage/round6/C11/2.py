# -*- coding: utf-8 -*-
"""C11 contradiction 2 (unchanged code): in a bytes machine '.' and negated classes match ONE BYTE of a
multi-byte symbol that the expression does not list, so the machine accepts prefixes that end inside a
symbol, counts one symbol as several, and rejects sentences.

state.from_regex maps greenery's "anything else" column to the single-symbol wildcard (True/ANY) transition;
the multi-byte expansion is only applied to symbols that appear literally in the expression.  Any other
multi-byte input symbol is therefore seen as 2..4 independent wildcard symbols:

    regex_bytes( '.'    ) on 'π'    accepts after 1 byte, stores b'\\xcf' (not a sentence, not even UTF-8)
    regex_bytes( '..'   ) on 'π'    accepts ONE symbol as a sentence of '..'
    regex_bytes( 'x.y'  ) on 'xπy'  is rejected (NonTerminal) although 'xπy' is a sentence of x.y
    regex_bytes( '[^a]' ) on 'é'    accepts b'\\xc3'
    regex_bytes( 'π.'   ) on 'π€'   accepts 3 of the 5 bytes
    string_bytes( '.', decode='utf-8' ) on 'π' raises UnicodeDecodeError from terminate()

Expected (property: "the same holds for machines over bytes, including symbols whose UTF-8 encoding takes
several bytes"): consumed/accepted as for the str machine over the decoded text.
"""
from __future__ import print_function
import re, sys, logging
import cpppo

logging.disable( logging.CRITICAL )

def run( cls, rx, inp, **kwds ):
    data		= cpppo.dotdict()
    source		= cpppo.peekable( inp )
    rejected		= False
    with cls( initial=str( rx ), context='r', terminal=True, **kwds ) as machine:
        try:
            for mch,sta in machine.run( source=source, data=data ):
                pass
        except cpppo.NonTerminal:
            rejected	= True
        accepted	= machine.terminal and not rejected
    stored		= data.get( 'r.input' )
    if stored is not None:
        stored		= stored.tounicode() if stored.typecode == 'u' else stored.tobytes()
    return source.sent, stored, accepted

cases			= [
    ( u'.',	u'π' ),
    ( u'..',	u'π' ),
    ( u'.{2}',	u'€' ),
    ( u'x.y',	u'xπy' ),
    ( u'[^a]',	u'é' ),
    ( u'[^a]b',	u'éb' ),
    ( u'π.',	u'π€' ),
    ( u'[^€]',	u'\u201a' ),	# e2 80 9a: diverges from the listed e2 82 ac at its 2nd byte; consumed as a 2-byte unit
    ( u'π.',	u'πρ' ),	# control: shares the lead byte of the listed symbol, handled
    ( u'.',	u'a' ),		# control
]
bad			= 0
for rx,text in cases:
    s_sent,s_stored,s_acc = run( cpppo.regex, rx, text )
    b_sent,b_stored,b_acc = run( cpppo.regex_bytes, rx, text.encode( 'utf-8' ))
    want		= ( s_stored or u'' ).encode( 'utf-8' )
    ok			= ( b_stored or b'' ) == want and b_acc == s_acc
    print( "%-6s on %-4s: str machine: consumed %d symbols, accepted %-5s | bytes machine: stored %r, accepted %-5s; expected %r, %-5s  %s" % (
        rx, text, s_sent, s_acc, b_stored, b_acc, want, s_acc, "ok" if ok else "CONTRADICTION" ))
    bad		       += not ok

# The string wrapper with a decode= fails outright on the half symbol
try:
    data		= cpppo.dotdict()
    with cpppo.string_bytes( 'one', initial=str( '.' ), greedy=True, context='one', decode='utf-8' ) as machine:
        for mch,sta in machine.run( source=cpppo.peekable( u'π'.encode( 'utf-8' )), data=data ):
            pass
    print( "string_bytes '.' on 'π': %r" % ( data.one, ))
    if data.one != u'π':
        bad	       += 1
except UnicodeDecodeError as exc:
    print( "string_bytes( initial='.', decode='utf-8' ) on 'π': %r  CONTRADICTION (expected 'π')" % ( exc, ))
    bad		       += 1

if bad:
    print( "observed: %d cases where the bytes machine splits a multi-byte symbol under '.'/[^...]" % bad )
    sys.exit( 1 )
print( "all as expected" )
