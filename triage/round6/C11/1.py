# -*- coding: utf-8 -*-
"""C11 contradiction 1 (unchanged code): an optional / starred group around an open-ended repetition of
at least two ( (a{2,})?, (a{2,})*, (aa+)?, (a{3,}|a)b ... ) yields a machine for a DIFFERENT language.

cpppo.state.from_regex hands the text to greenery.lego.parse(), which *reduces* the expression before it is
converted; greenery 2.1's reduction multiplies the multipliers {2,} x {0,1} into {0,} (inf * 0 treated as
inf in multiplier.canmultiplyby), so '(a{2,})?' becomes 'a*', 'a{3,}|a' becomes 'a+', etc.  The machine then
accepts 'a' for '(a{2,})?', and 'aa' for 'a{3,}|a'.

Expected (standard regular-expression semantics, cross-checked with python's re): 'a' is not a sentence of
(a{2,})? / (a{2,})* / (aa+)? ; 'aa' is not a sentence of a{3,}|a ; 'cc'+'c' ...
"""
from __future__ import print_function
import re, sys, logging
import cpppo

logging.disable( logging.CRITICAL )

def run( rx, text ):
    data		= cpppo.dotdict()
    source		= cpppo.peekable( text )
    rejected		= False
    with cpppo.regex( initial=str( rx ), context='r', terminal=True ) as machine:
        try:
            for mch,sta in machine.run( source=source, data=data ):
                pass
        except cpppo.NonTerminal:
            rejected	= True
        accepted	= machine.terminal and not rejected
    stored		= data.get( 'r.input' )
    stored		= '' if stored is None else stored.tounicode()
    return source.sent, stored, accepted

cases			= [
    ( '(a{2,})?',	'a' ),
    ( '(a{2,})*',	'a' ),
    ( '(aa+)?',		'a' ),
    ( '(a{2,}){0,2}',	'a' ),
    ( 'a{3,}|a',	'aa' ),
    ( '((c+){3,4}|c)b',	'ccb' ),
    ( '([ab]+[ab])?',	'b' ),
    ( '(a{2,})?',	'aa' ),		# controls
    ( '(a{2,3})?',	'a' ),
    ( '(a{2,})+',	'a' ),
]
bad			= 0
for rx,text in cases:
    consumed,stored,accepted = run( rx, text )
    # greedy: the machine consumes the longest viable prefix; acceptance must mean that prefix is a sentence
    expected		= len( stored ) > 0 and re.fullmatch( rx, stored ) is not None
    verdict		= "ok" if accepted == expected else "CONTRADICTION"
    print( "%-16s on %-4r: consumed %d, stored %r, accepted %-5s; python re says sentence: %-5s  %s" % (
        rx, text, consumed, stored, accepted, expected, verdict ))
    if accepted != expected:
        bad	       += 1
if bad:
    print( "observed: %d expressions accept a string outside their language (expected: rejected with NonTerminal)" % bad )
    sys.exit( 1 )
print( "all as expected" )
