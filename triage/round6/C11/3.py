# -*- coding: utf-8 -*-
"""C11 contradiction 3 (unchanged code; lower confidence -- a consequence of matching bytewise without
look-ahead): a bytes machine whose accepting state excludes a multi-byte symbol next to a live wildcard
([^π]+, [^π]*x?, π*[^π] ...) consumes the LEAD BYTE(S) of the excluded symbol before it can tell it apart,
ends up inside the symbol in a non-accepting intermediate state, and fails NonTerminal -- although the
prefix consumed so far was a sentence and the excluded symbol simply cannot continue it.

    regex      ( '[^π]+' ) on 'aπ'           consumes 'a', accepts             (symbol cannot continue: stop)
    regex_bytes( '[^π]+' ) on 'aπ' (utf-8)   consumes b'a\\xcf', NonTerminal   (expected: consume b'a', accept)

The same shape WITHOUT a live wildcard was repaired earlier ( regex_bytes('π') on 'ππ' now stops before the
second symbol and accepts ); with a live wildcard the intermediate state is entered and the sentence is lost.
Expected per the property ("the same holds for machines over bytes, including symbols whose UTF-8 encoding
takes several bytes"): same consumed text and same verdict as the str machine.
"""
from __future__ import print_function
import sys, logging
import cpppo

logging.disable( logging.CRITICAL )

def run( cls, rx, inp ):
    data		= cpppo.dotdict()
    source		= cpppo.peekable( inp )
    rejected		= False
    with cls( initial=str( rx ), context='r', terminal=True ) as machine:
        try:
            for mch,sta in machine.run( source=source, data=data ):
                pass
        except cpppo.NonTerminal:
            rejected	= True
        accepted	= machine.terminal and not rejected
    stored		= data.get( 'r.input' )
    if stored is not None:
        stored		= stored.tounicode() if stored.typecode == 'u' else stored.tobytes()
    return source.sent, stored, accepted

cases			= [
    ( u'[^π]+',		u'aπ' ),
    ( u'[^π]*',		u'abπc' ),
    ( u'[^€]{2,}',	u'xy€' ),
    ( u'π+[^π]',	u'πaπ' ),
    ( u'[^π]+',		u'aρ' ),	# control: sibling of the excluded symbol is admitted
    ( u'π+',		u'ππa' ),	# control: no live wildcard
]
bad			= 0
for rx,text in cases:
    s_sent,s_stored,s_acc = run( cpppo.regex, rx, text )
    b_sent,b_stored,b_acc = run( cpppo.regex_bytes, rx, text.encode( 'utf-8' ))
    want		= ( s_stored or u'' ).encode( 'utf-8' )
    ok			= ( b_stored or b'' ) == want and b_acc == s_acc
    print( "%-8s on %-5s: str machine stored %r accepted %-5s | bytes machine stored %r accepted %-5s; expected %r %-5s  %s" % (
        rx, text, s_stored, s_acc, b_stored, b_acc, want, s_acc, "ok" if ok else "CONTRADICTION" ))
    bad		       += not ok
if bad:
    print( "observed: %d cases where the bytes machine loses an accepted sentence to the lead byte of an excluded symbol" % bad )
    sys.exit( 1 )
print( "all as expected" )
