#!/usr/bin/env python
"""
C15 defect 2 ( UNCHANGED code ): the textual route paths 'false', '0' and '[]' denote "no route path"
( parse_route_path yields False / 0 / [] for them; README: "To specify no route_path, use 0 or false
(usually only in concert with --send-path='', or just use -S)" ).  client.unconnected_send however
tests the *unparsed* text for truth:

        if route_path:                      # 'false' / '0' / '[]' are truthy strings
            route_path = device.parse_route_path( route_path )
            assert send_path or send_path is None, "Must supply a send_path ... if route_path supplied"

so a request with route_path='false' (or '0', '[]') and send_path='' -- the documented combination
for a simple device -- dies with AssertionError although no route path was supplied, while the
equivalent non-textual False / 0 / [] work.  The same happens for the command line
'client -S --route-path false' ( -S makes the send path '' ).

Exit 1 ( contradiction present ): a textual no-route-path + send_path '' raises.   Exit 0: all are served.
"""
from __future__ import print_function

import socket
import sys
import threading
import time

import cpppo
from cpppo.server.enip import client, device, logix
from cpppo.server.enip.main import main as enip_main
import cpppo.server.enip.main as enip_main_module

PORT				= 44885
TIMEOUT				= 3.0


def server_start():
    device.lookup_reset()
    logix.setup_reset()
    enip_main_module.options.clear()
    control			= cpppo.apidict( TIMEOUT, { 'done': False } )
    result			= {}

    def run():
        try:
            result['rc']	= enip_main(
                argv=[ '--no-config', '--no-udp', '--address', 'localhost:%d' % PORT, '-S', 'T=INT[4]' ],
                server={ 'control': control } )
        except BaseException as exc:
            result['exc']	= exc

    thread			= threading.Thread( target=run )
    thread.daemon		= True
    thread.start()
    for _ in range( 100 ):
        assert 'exc' not in result, "Simulator failed to start: %r" % ( result['exc'], )
        try:
            socket.create_connection( ('localhost', PORT), timeout=.2 ).close()
            break
        except Exception:
            time.sleep( .1 )
    return control, thread


def read_tag( route_path, send_path ):
    try:
        with client.connector( host='localhost', port=PORT, timeout=TIMEOUT ) as conn:
            operations		= client.parse_operations( [ 'T[0]' ], route_path=route_path, send_path=send_path )
            for idx,dsc,op,rpy,sts,val in conn.pipeline( operations=operations, depth=1, timeout=TIMEOUT ):
                return sts, val
    except Exception as exc:
        return "%s: %s" % ( type( exc ).__name__, exc ), None
    return "no reply", None


def main():
    control,thread		= server_start()
    bad				= []
    try:
        for route_path in ( False, 0, [], 'false', '0', '[]' ):
            status,value	= read_tag( route_path, '' )
            ok			= ( status == 0 and value == [0] )
            print( "route_path=%-8r send_path=''  --> %s" % ( route_path, "served: %r" % ( value, ) if ok else "FAILED: %s" % ( status, )))
            if not ok:
                bad.append( ( route_path, status ))
        try:
            rc			= client.main( [ '-a', 'localhost:%d' % PORT, '-S', '--route-path', 'false', 'T[0]' ] )
        except BaseException as exc:
            rc			= "%s: %s" % ( type( exc ).__name__, exc )
        print( "client -S --route-path false      --> %r" % ( rc, ))
        if rc != 0:
            bad.append( ( "client -S --route-path false", rc ))
    finally:
        control['done']		= True
        thread.join( 10 )
    if bad:
        print( "OBSERVED: %r; EXPECTED: 'false', '0' and '[]' spell \"no route path\" and are served like False, 0 and []" % ( bad, ))
        return 1
    return 0


if __name__ == "__main__":
    sys.exit( main() )
