#!/usr/bin/env python
"""
C15 defect 3 ( UNCHANGED code ): cpppo.server.enip.main.main() keeps the device personality of its
*first* invocation in a process.  main() creates the UCMM subclass for --route-path / --simple and
hands it on with

        if UCMM_class:
            options.setdefault( 'UCMM_class', UCMM_class )

but 'options' is a module-level dotdict that survives main(): a later main() ( after the first
simulator was shut down and its CIP Objects discarded with device.lookup_reset() and
logix.setup_reset(), exactly as the test-suite does between simulators ) finds the key already
present, so the new --route-path / -S ( or their absence ) is ignored and the *old* route path is
enforced.

Sequence:  main( --route-path 1/0 ) ... done;  main( --route-path 1/5 ) ... done;  main( <nothing> ).
Expected:  2nd simulator accepts 1/5 and refuses 1/0;  3rd ( unconfigured ) accepts any route path.
Observed:  2nd and 3rd still accept 1/0 only.

Exit 1 ( contradiction present ) / exit 0 ( each simulator follows its own configuration ).
"""
from __future__ import print_function

import socket
import sys
import threading
import time

import cpppo
from cpppo.server.enip import client, device, logix
from cpppo.server.enip.main import main as enip_main

TIMEOUT				= 3.0


def simulator( port, options, probes ):
    """Run one simulator from start to clean shutdown; return { route_path: accepted? }"""
    device.lookup_reset()		# a fresh set of CIP Objects ...
    logix.setup_reset()			# ... and a fresh UCMM, as between the simulators of the test-suite
    control			= cpppo.apidict( TIMEOUT, { 'done': False } )
    result			= {}

    def run():
        try:
            result['rc']	= enip_main(
                argv=[ '--no-config', '--no-udp', '--address', 'localhost:%d' % port ] + options + [ 'T=INT[4]' ],
                server={ 'control': control } )
        except BaseException as exc:
            result['exc']	= exc

    thread			= threading.Thread( target=run )
    thread.daemon		= True
    thread.start()
    for _ in range( 100 ):
        assert 'exc' not in result, "Simulator failed to start: %r" % ( result['exc'], )
        try:
            socket.create_connection( ('localhost', port), timeout=.2 ).close()
            break
        except Exception:
            time.sleep( .1 )
    outcome			= {}
    try:
        for route_path in probes:
            try:
                with client.connector( host='localhost', port=port, timeout=TIMEOUT ) as conn:
                    operations	= client.parse_operations( [ 'T[0]' ], route_path=route_path )
                    for idx,dsc,op,rpy,sts,val in conn.pipeline( operations=operations, depth=1, timeout=TIMEOUT ):
                        outcome[route_path] = ( sts == 0 and val == [0] )
            except Exception as exc:
                outcome[route_path] = False
    finally:
        control['done']		= True
        thread.join( 20 )
    assert not thread.is_alive() and result.get( 'rc' ) == 0, "Simulator did not shut down cleanly: %r" % ( result, )
    return outcome


def main():
    runs			= [
        ( 44886, [ '--route-path', '1/0' ],	{ '1/0': True,  '1/5': False } ),
        ( 44887, [ '--route-path', '1/5' ],	{ '1/0': False, '1/5': True  } ),
        ( 44888, [],				{ '1/0': True,  '1/5': True  } ),
    ]
    bad				= []
    for port,options,expect in runs:
        got			= simulator( port, options, sorted( expect ))
        print( "main( %-22r ): accepted? %r   (expected %r)" % ( ' '.join( options ), got, expect ))
        if got != expect:
            bad.append( ( options, got, expect ))
    if bad:
        for options,got,expect in bad:
            print( "OBSERVED: simulator started with %r accepts %r; EXPECTED %r" % ( options, got, expect ))
        return 1
    return 0


if __name__ == "__main__":
    sys.exit( main() )
