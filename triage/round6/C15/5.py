#!/usr/bin/env python
"""
C15 defect 5 ( UNCHANGED code; peripheral -- it concerns the route *table* half of UCMM.__init__ ):
UCMM.__init__ documents three sources for the routing table, in increasing priority: the [UCMM]
'Route' of the config file, the class attribute UCMM.route, "and any route from keyword parameters":

        super( UCMM, self ).__init__( *args, **kwds )
        ...
        if 'route' in kwds:		# and any route from keyword parameters
            route.update( kwds.pop( 'route' ))

but all keywords were already handed to device.Object.__init__ two lines earlier, which knows no
'route' keyword: UCMM( route={...} ) can only raise TypeError, the branch is unreachable.

Exit 1 ( contradiction present ): UCMM( route={ "1/1-3": "localhost:44819" } ) raises.
Exit 0: it yields a UCMM whose table routes 1/1, 1/2 and 1/3 to ('localhost', 44819).
"""
from __future__ import print_function

import sys

from cpppo.server.enip import device, ucmm


def main():
    device.lookup_reset()
    try:
        u			= ucmm.UCMM( route={ "1/1-3": "localhost:44819" } )
    except Exception as exc:
        print( "OBSERVED: UCMM( route={'1/1-3': 'localhost:44819'} ) raises %s: %s; EXPECTED: a UCMM routing 1/1, 1/2, 1/3 --> ('localhost', 44819)" % (
            type( exc ).__name__, exc ))
        return 1
    expect			= dict( ( "1/%d" % l, ( "localhost", 44819 )) for l in ( 1, 2, 3 ))
    print( "UCMM.route == %r" % ( u.route, ))
    if u.route != expect:
        print( "OBSERVED: route table %r; EXPECTED %r" % ( u.route, expect ))
        return 1
    return 0


if __name__ == "__main__":
    sys.exit( main() )
