#!/usr/bin/env python
"""
C15 defect 4 ( UNCHANGED code; lower confidence -- the README contradicts itself here ): the simulator's
README lists, among the valid forms of the option,

        --route-path 1/0/2/192.168.1.2 # { backplane, slot 0 }, { port 2, link 192.168.1.2 }

and the UCMM compares whole segment lists ( a [UCMM] 'Route Path = 1/0/2/192.168.1.2' in a config file,
or a UCMM subclass with a two-segment route_path, works: it accepts exactly that two-segment route
path and refuses its one-segment prefix ).  main() however refuses to start with a multi-segment
--route-path:  "route_path: must be JSON null/0/false, or a single [port/link]".  So the personality
"multi-segment route path" cannot be configured the documented way.

Exit 1 ( contradiction present ): main( --route-path 1/0/2/192.168.1.2 ) fails to start, while the same
route path configured through a config file is enforced correctly.   Exit 0: both start and filter alike.
"""
from __future__ import print_function

import os
import socket
import sys
import tempfile
import threading
import time

import cpppo
from cpppo.server.enip import client, device, logix
from cpppo.server.enip.main import main as enip_main
import cpppo.server.enip.main as enip_main_module

TIMEOUT				= 3.0
ROUTE				= '1/0/2/192.168.1.2'


def simulator( port, options, probes ):
    device.lookup_reset()
    logix.setup_reset()
    enip_main_module.options.clear()
    device.Object.config_loader.clear()
    control			= cpppo.apidict( TIMEOUT, { 'done': False } )
    result			= {}

    def run():
        try:
            result['rc']	= enip_main(
                argv=[ '--no-udp', '--address', 'localhost:%d' % port ] + options + [ 'T=INT[4]' ],
                server={ 'control': control } )
        except BaseException as exc:
            result['exc']	= exc

    thread			= threading.Thread( target=run )
    thread.daemon		= True
    thread.start()
    for _ in range( 50 ):
        if 'exc' in result:
            return "failed to start: %s: %s" % ( type( result['exc'] ).__name__, result['exc'] )
        try:
            socket.create_connection( ('localhost', port), timeout=.2 ).close()
            break
        except Exception:
            time.sleep( .1 )
    outcome			= {}
    try:
        for route_path in probes:
            try:
                with client.connector( host='localhost', port=port, timeout=TIMEOUT ) as conn:
                    operations	= client.parse_operations( [ 'T[0]' ], route_path=route_path )
                    for idx,dsc,op,rpy,sts,val in conn.pipeline( operations=operations, depth=1, timeout=TIMEOUT ):
                        outcome[route_path] = ( sts == 0 and val == [0] )
            except Exception as exc:
                outcome[route_path] = False
    finally:
        control['done']		= True
        thread.join( 20 )
    return outcome


def main():
    expect			= { ROUTE: True, '1/0': False, '1/0/2/192.168.1.3': False }
    cfg				= tempfile.NamedTemporaryFile( mode='w', suffix='.cfg', delete=False )
    try:
        cfg.write( "[UCMM]\nRoute Path = %s\n" % ( ROUTE, ))
        cfg.close()
        by_config		= simulator( 44889, [ '--no-config', '--config', cfg.name ], sorted( expect ))
        # '--no-config' disables all config files, including the --config one; so use only the explicit one:
        if by_config != expect:
            by_config		= simulator( 44890, [ '--config-basename', 'no-such-cpppo-config', '--config', cfg.name ], sorted( expect ))
    finally:
        os.unlink( cfg.name )
    by_option			= simulator( 44891, [ '--no-config', '--route-path', ROUTE ], sorted( expect ))
    print( "[UCMM] Route Path = %s : %r" % ( ROUTE, by_config ))
    print( "--route-path %s       : %r" % ( ROUTE, by_option ))
    if by_config != expect:
        print( "UNEXPECTED: the config file reference did not behave as described: expected %r" % ( expect, ))
        return 2
    if by_option != expect:
        print( "OBSERVED: --route-path %s: %s; EXPECTED (README example): the simulator starts and accepts exactly that route path: %r" % (
            ROUTE, by_option, expect ))
        return 1
    return 0


if __name__ == "__main__":
    sys.exit( main() )
