#!/usr/bin/env python
"""
C15 defect 1 ( UNCHANGED code ): 'python -m cpppo.server.enip.client --route-path false --send-path ""'
is documented ( README "use -S or --simple, or explicitly: --send-path='' --route-path=false", and the
--send-path help: "Specify an empty string '' for no Send Path" ) as the way to talk to a simple,
non-routing device *without* any Unconnected Send (0x52) encapsulation.  client.main() tests the
option for truth ( `args.send_path if args.send_path else '' if args.simple else None` ), so the
explicit empty string is turned into None, i.e. "use the default @6/1", and every request goes out
wrapped in an Unconnected Send with send path @6/1 and an empty route path.

Exit 1 ( contradiction present ): the requests of '--route-path false --send-path ""' arrive with the
0x52 Unconnected Send encapsulation, unlike those of '-S'.   Exit 0: both arrive bare.
"""
from __future__ import print_function

import socket
import sys
import threading
import time

import cpppo
from cpppo.server.enip import client, device, logix, ucmm
from cpppo.server.enip.main import main as enip_main
import cpppo.server.enip.main as enip_main_module

PORT				= 44884
seen				= []


class UCMM_recording( ucmm.UCMM ):
    """Accepts anything; remembers how each SendRRData's unconnected item was encapsulated."""
    def request( self, data, addr=None ):
        if data and 'enip.CIP.send_data' in data:
            us			= data.enip.CIP.send_data.CPF.item[1].get( 'unconnected_send' )
            if us is not None:
                seen.append( ( us.get( 'service' ),
                               [ dict( s ) for s in us.get( 'path.segment' ) or [] ] if 'path' in us else None,
                               [ dict( s ) for s in us.get( 'route_path.segment' ) or [] ] if 'route_path' in us else None ))
        return super( UCMM_recording, self ).request( data, addr=addr )


def server_start():
    device.lookup_reset()
    logix.setup_reset()
    enip_main_module.options.clear()
    control			= cpppo.apidict( 3.0, { 'done': False } )
    result			= {}

    def run():
        try:
            result['rc']	= enip_main(
                argv=[ '--no-config', '--no-udp', '--address', 'localhost:%d' % PORT, 'T=INT[4]' ],
                UCMM_class=UCMM_recording, server={ 'control': control } )
        except BaseException as exc:
            result['exc']	= exc

    thread			= threading.Thread( target=run )
    thread.daemon		= True
    thread.start()
    for _ in range( 100 ):
        assert 'exc' not in result, "Simulator failed to start: %r" % ( result['exc'], )
        try:
            socket.create_connection( ('localhost', PORT), timeout=.2 ).close()
            break
        except Exception:
            time.sleep( .1 )
    return control, thread


def run_client( *options ):
    del seen[:]
    try:
        rc			= client.main( [ '-a', 'localhost:%d' % PORT ] + list( options ) + [ 'T[0]' ] )
    except BaseException as exc:
        rc			= repr( exc )
    return rc, list( seen )


def main():
    control,thread		= server_start()
    try:
        rc_simple,simple	= run_client( '-S' )
        rc_explicit,explicit	= run_client( '--route-path', 'false', '--send-path', '' )
    finally:
        control['done']		= True
        thread.join( 10 )

    print( "client -S                                : rc %r, (service, send path, route path) as received: %r" % ( rc_simple, simple ))
    print( "client --route-path false --send-path '' : rc %r, (service, send path, route path) as received: %r" % ( rc_explicit, explicit ))
    if rc_simple != 0 or not simple or any( svc == 0x52 for svc,_,_ in simple ):
        print( "UNEXPECTED: the -S reference run did not produce bare requests" )
        return 2
    if rc_explicit != 0 or not explicit or any( svc == 0x52 for svc,_,_ in explicit ):
        print( "OBSERVED: with --send-path '' --route-path false the request is (still) wrapped in an Unconnected Send 0x52 "
               "with send path %r; EXPECTED: no Unconnected Send encapsulation, exactly as with -S" % ( explicit[0][1] if explicit else None, ))
        return 1
    return 0


if __name__ == "__main__":
    sys.exit( main() )
