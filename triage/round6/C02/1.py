"""
C02 / unchanged code: a TCP connection that ends in the middle of a frame is not treated like a
connection that ended; the session state it had established stays behind.

enip_srv_tcp tells the request processor that a session is over by calling enip_process( addr, {} ):
the UCMM hands that to the Connection Manager, which purges the Forward Open (connected session)
entries registered for the peer (host,port).  This happens when the connection reaches EOF between two
frames, and when the processing of a request fails -- but NOT when the EOF (or reset) arrives in the
middle of a frame: the framing machine raises, the outer 'except:' logs and re-raises, the socket is
closed, and Connection_Manager.forwards keeps the dead peer's entries for ever (a later TCP session
from the same host and source port would have its Connected Sends routed through them).

Here three identical sessions Register and Forward Open; the first one ends between frames, the
others in the middle of a request frame (inside the payload / inside the 24-byte header).  After the
simulator has dropped each connection, the Connection Manager must not know the peer any more.
"""
from __future__ import print_function
import socket, sys, threading, time

from cpppo.dotdict import dotdict, apidict
from cpppo.server.enip import client, device, parser
from cpppo.server.enip import main as enip_main

SIM_PORT			= 44818


def start_simulator():
    ctl				= dotdict()
    ctl.control			= apidict( timeout=1.0 )
    ctl.control.latency		= 0.05
    thr				= threading.Thread( target=enip_main.main, kwargs=dict(
        argv=[ '-a', 'localhost:%d' % SIM_PORT, 'SCADA=INT[10]' ], server=ctl ))
    thr.daemon			= True
    thr.start()
    for _ in range( 200 ):
        try:
            socket.create_connection( ('localhost', SIM_PORT), timeout=.5 ).close()
            return ctl
        except Exception:
            time.sleep( .05 )
    raise RuntimeError( "simulator did not start" )


def one_session( truncate ):
    """Register + Forward Open, then send the first 'truncate' bytes of a Read Tag request (none, if
    0), half-close, and wait for the simulator to drop the connection.  Returns what remained."""
    conn			= client.implicit( 'localhost', SIM_PORT, timeout=5 )
    peer			= conn.conn.getsockname()[:2]
    mine			= lambda: [ k for k in device.Connection_Manager.forwards if k[:2] == peer ]
    assert mine(), "Forward Open was not registered by the Connection Manager"

    frames			= []
    conn.send			= lambda request, timeout=None: frames.append( bytes( request ))
    conn.read( 'SCADA[0]' )
    sock			= conn.conn
    if truncate:
        sock.sendall( frames[0][:truncate] )
    sock.shutdown( socket.SHUT_WR )
    sock.settimeout( 3.0 )
    received			= b''
    try:
        while True:
            got			= sock.recv( 4096 )
            if not got:
                break
            received	       += got
    except socket.timeout:
        pass
    # the connection has been closed by the simulator; give its thread a moment to finish
    key				= "%s_%d" % ( peer[0].replace( '.', '_' ), peer[1] )
    for _ in range( 100 ):
        if key not in enip_main.connections:
            break
        time.sleep( .02 )
    sock.close()
    conn.conn			= None	# no Forward Close etc. from the client's destructor
    return len( frames[0] ), received, mine()


def main():
    ctl				= start_simulator()
    problems			= []
    for what,truncate in [ ( "between two frames", 0 ),
                           ( "inside the payload of a request", 40 ),
                           ( "inside the header of a request", 10 ) ]:
        size,received,left	= one_session( truncate )
        print( "connection ended %-32s (%2d of %d bytes sent): %d reply bytes, Forward Open entries left: %r" % (
            what, truncate, size, len( received ), left ))
        if received:
            problems.append( "ended %s: %d bytes of reply for an unfinished frame" % ( what, len( received )))
        if left:
            problems.append( "ended %s: Connection Manager still holds %r for the closed connection" % ( what, left ))
    ctl.control.done		= True
    if problems:
        print( "OBSERVED: the session state of a connection that ends mid-frame is not released:" )
        for p in problems:
            print( "  " + p )
        print( "EXPECTED: like for a connection that ends between frames (first case), nothing of the peer remains" )
        return 1
    print( "OK: every ended connection was cleaned up" )
    return 0


if __name__ == "__main__":
    sys.exit( main() )
