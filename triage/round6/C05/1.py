#!/usr/bin/env python
"""
C05 contradiction 1 (unchanged code): a Write Tag [Fragmented] of STRUCT data to a STRUCT (UDT) tag is
acknowledged with success, but stores the *key name* 'input' in place of the record: the element is
unreadable afterwards ( every Read Tag [Fragmented] that touches it fails 0xFF/0x2105 ).

Expected ( property C05 ): a write that is acknowledged with success leaves the tag readable, and reads
return the written value -- or the write is refused and the tag stays as it was.

Uses the UDT shipped with the library's own udt_test ( ExampleSensor ), a Logix object in-process; each
request is produced to bytes, parsed by the Logix parser, executed by Logix.request, and the reply bytes
are parsed again.
"""
from __future__ import print_function
import json, logging, os, sys

import cpppo
from cpppo import misc
from cpppo.server.enip import device, logix, parser, udt

logging.basicConfig( level=logging.ERROR )

base				= os.path.join( os.path.dirname( cpppo.__file__ ), 'server', 'enip', 'udt_test' )
with open( os.path.join( base, 'ExampleSensor-tags.json' )) as f:
    tagtype			= [ v for k,v in json.load( f ).items() if k.endswith( 'ExampleSensor' ) ][0]
with open( os.path.join( base, 'ExampleSensor.hexdump' )) as f:
    tagdata			= b''.join( d for a,d in misc.hexloader( f ))
siz				= tagtype["data_type"]["template"]["structure_size"]
stag				= tagtype["data_type"]["template"]["structure_handle"]

def record( raw ):
    """Decode one UDT record, as udt_test does to prepare the Attribute's default value."""
    rec				= cpppo.dotdict()
    with udt.STRUCT_typed( data_type=tagtype ) as machine:
        for m,s in machine.run( source=cpppo.peekable( raw ), data=rec ):
            pass
    return rec

device.lookup_reset()
logix.setup_reset()
Obj				= logix.Logix( instance_id=1 )
count				= 3
Att = Obj.attribute['1']	= device.Attribute( 'U', lambda: udt.STRUCT_typed( data_type=tagtype ),
                                                    default=[ record( tagdata[i*siz:(i+1)*siz] ) for i in range( count ) ] )
device.redirect_tag( 'U', {'class': Obj.class_id, 'instance': Obj.instance_id, 'attribute': 1} )

def transact( request ):
    raw				= Obj.produce( request )
    data			= cpppo.dotdict()
    with Obj.parser as machine:
        for m,s in machine.run( source=cpppo.peekable( raw ), data=data ):
            pass
    Obj.request( data )
    reply			= cpppo.dotdict()
    with Obj.parser as machine:
        for m,s in machine.run( source=cpppo.peekable( bytes( data.input )), data=reply ):
            pass
    return reply

def read_element( elm ):
    """Read one whole UDT element with Read Tag Fragmented(s); returns status,bytes"""
    got,off			= b'',0
    while True:
        req			= cpppo.dotdict()
        req.path		= {'segment': [{'symbolic': 'U'}, {'element': elm}]}
        req.read_frag		= {'elements': 1, 'offset': off}
        rpy			= transact( req )
        if rpy.status not in (0x00, 0x06):
            return rpy.status,got
        got		       += parser.octets_encode( rpy.read_frag.data.input )
        off			= len( got )
        if rpy.status == 0x00:
            return 0,got

problems			= []
for elm in range( count ):
    sts,raw			= read_element( elm )
    assert sts == 0 and len( raw ) == siz, "Cannot read U[%d] initially: status %r, %d bytes" % ( elm, sts, len( raw ))

# Write element 2's image to element 1, with the right type and structure handle ( 600 bytes: fits in 2 fragments )
sts,image			= read_element( 2 )
sts,before			= read_element( 1 )
statuses			= []
for off in range( 0, siz, 400 ):
    req				= cpppo.dotdict()
    req.path			= {'segment': [{'symbolic': 'U'}, {'element': 1}]}
    req.write_frag		= {'type': parser.STRUCT.tag_type, 'structure_tag': stag, 'elements': 1, 'offset': off,
                                   'data': {'input': bytearray( image[off:off+400] )}}
    statuses.append( transact( req ).status )
print( "Write Tag Fragmented STRUCT 0x%04x x 1 --> U[1]: status %r" % ( stag, statuses ))
print( "U[1] stored value now: %s" % misc.reprlib.repr( Att.value[1] ))

sts,after			= read_element( 1 )
print( "Read U[1] afterwards: status 0x%02x, %d bytes" % ( sts, len( after )))
if all( s == 0 for s in statuses ):
    if sts != 0:
        problems.append( "write acknowledged with success, but U[1] is unreadable afterwards (status 0x%02x)" % sts )
    elif after != image:
        problems.append( "write acknowledged with success, but U[1] does not read back the written record" )
else:
    if sts != 0 or after != before:
        problems.append( "write refused (%r), but U[1] changed / became unreadable (status 0x%02x)" % ( statuses, sts ))
for elm in (0, 2):
    s,_				= read_element( elm )
    if s != 0:
        problems.append( "U[%d] unreadable too (status 0x%02x)" % ( elm, s ))

if problems:
    print( "OBSERVED: " + "; ".join( problems ))
    print( "EXPECTED: an acknowledged write leaves the tag readable with the written value (or the write is refused)" )
    sys.exit( 1 )
print( "OK" )
