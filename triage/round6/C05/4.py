#!/usr/bin/env python
"""
C05 contradiction 4 (unchanged code; needs a particular configuration): simulator started with --print,
and a standard output that cannot take every ISO-8859-1 character ( eg. PYTHONIOENCODING=ascii, a C locale
on older Pythons; a closed pipe has the same effect ).  A Write Tag of a STRING / SSTRING value holding a
non-ASCII character is answered with a failure ( 0xFF / 0x2105 ) -- but the value HAS been stored:
main.Attribute_print.__setitem__ stores first and prints afterwards, and the exception of the print is
turned into the error reply.

Expected ( property C05: failure status pre-set before each step, state mutated only by the final
assignment ): a request that is answered with a failure indication leaves every tag exactly as it was
( or: the write is acknowledged, since it was performed ).
"""
from __future__ import print_function
import io, logging, os, socket, sys, threading, time

import cpppo
from cpppo.server import enip
from cpppo.server.enip import client, device, logix
from cpppo.server.enip.main import main as enip_main

logging.basicConfig( level=logging.CRITICAL )

ADDR				= ('127.0.0.1', 44818)

def start():
    device.lookup_reset()
    logix.setup_reset()
    kwargs			= {
        'argv':	  [ '--print', '--no-udp', '--address', '%s:%d' % ADDR, 'T=STRING[2]', 'S=SSTRING' ],
        'server': { 'control': cpppo.apidict( enip.timeout, { 'done': False } ) },
    }
    thr				= threading.Thread( target=enip_main, kwargs=kwargs )
    thr.daemon			= True
    thr.start()
    for _ in range( 100 ):
        try:
            socket.create_connection( ADDR, timeout=.2 ).close()
            break
        except Exception:
            time.sleep( .1 )
    return thr,kwargs

def run( conn, tags ):
    return [ (sts,val) for idx,dsc,op,rpy,sts,val in conn.synchronous( operations=client.parse_operations( tags )) ]

# The simulator's --print output goes to an ASCII-only stdout, as with PYTHONIOENCODING=ascii
stdout_real			= sys.stdout
sys.stdout			= io.TextIOWrapper( open( os.devnull, 'wb' ), encoding='ascii', errors='strict', line_buffering=True )

observed			= []
problems			= []
thr,kwargs			= start()
try:
    with client.connector( host=ADDR[0], port=ADDR[1], timeout=5 ) as conn:
        for tag,write,value in (
                ( 'T[0]', u'T[0]=(STRING)"plain"',	u'plain' ),
                ( 'T[1]', u'T[1]=(STRING)"caf\xe9"',	u'caf\xe9' ),
                ( 'S',    u'S=(SSTRING)"\xfcber"',	u'\xfcber' ), ):
            (_,before),		= run( conn, [tag] )
            (wsts,_),		= run( conn, [write] )
            (rsts,after),	= run( conn, [tag] )
            observed.append( "%-26s: write status %r; %s before %s, after %s (read status %r)" % (
                ascii( write ), wsts, tag, ascii( before ), ascii( after ), rsts ))
            if wsts not in (0,None) and after != before:
                problems.append( "%s answered with failure %r, but %s changed %s --> %s" % (
                    ascii( write ), wsts, tag, ascii( before ), ascii( after )))
            if wsts in (0,None) and after != [value]:
                problems.append( "%s acknowledged, but %s reads %s" % ( ascii( write ), tag, ascii( after )))
finally:
    kwargs['server']['control'].done = True
    thr.join( 10 )
    sys.stdout			= stdout_real

for o in observed:
    print( o )
if problems:
    print( "OBSERVED: " + "; ".join( problems ))
    print( "EXPECTED: a write answered with a failure status leaves the tag exactly as it was" )
    sys.exit( 1 )
print( "OK" )
