#!/usr/bin/env python
"""
C05 observation 5 (unchanged code; minor -- needs two simulator runs in one process): the module-level
'tags' table of cpppo.server.enip.main is never cleared, and logix.setup() re-creates every tag found in
it with each request.  A simulator started by a second main() -- after device.lookup_reset(), as the
library's own tests do -- still serves the tags ( and the values written to them ) of the first run,
although its own configuration does not name them.

Expected ( property C05 ): a request that names a tag unknown to the running simulator is answered with a
failure indication ( CIP status 0x05 ).
"""
from __future__ import print_function
import logging, socket, sys, threading, time

import cpppo
from cpppo.server import enip
from cpppo.server.enip import client, device, logix
from cpppo.server.enip.main import main as enip_main

logging.basicConfig( level=logging.CRITICAL )

def simulator( port, tags ):
    device.lookup_reset()
    logix.setup_reset()
    addr			= ('127.0.0.1', port)
    kwargs			= {
        'argv':	  [ '--no-udp', '--address', '%s:%d' % addr ] + tags,
        'server': { 'control': cpppo.apidict( enip.timeout, { 'done': False } ) },
    }
    thr				= threading.Thread( target=enip_main, kwargs=kwargs )
    thr.daemon			= True
    thr.start()
    for _ in range( 100 ):
        try:
            socket.create_connection( addr, timeout=.2 ).close()
            break
        except Exception:
            time.sleep( .1 )
    def stop():
        kwargs['server']['control'].done = True
        thr.join( 10 )
    return addr,stop

def run( addr, tags ):
    with client.connector( host=addr[0], port=addr[1], timeout=5 ) as conn:
        return [ ( sts if not isinstance( sts, tuple ) else sts[0], val )
                 for idx,dsc,op,rpy,sts,val in conn.synchronous(
                         operations=client.parse_operations( tags ), multiple=400 ) ]

addr,stop			= simulator( 44818, ['Old=INT[3]', 'Both=INT'] )
try:
    first			= run( addr, ['Old[0-2]=(INT)1,2,3', 'Both=(INT)9', 'New'] )
finally:
    stop()
print( "1st simulator ( Old=INT[3] Both=INT ): write Old, write Both, read New: %r" % ( first, ))
assert [ s for s,v in first ] == [0,0,5], "Unexpected result from the first simulator"

addr,stop			= simulator( 44819, ['New=DINT[3]', 'Both=INT'] )
try:
    second			= run( addr, ['New[0-2]', 'Both', 'Old[0-2]', 'Old[0]=(INT)7', 'Old[0-2]'] )
finally:
    stop()
print( "2nd simulator ( New=DINT[3] Both=INT ): read New, Both, Old; write Old; read Old: %r" % ( second, ))

problems			= []
if second[2][0] == 0:
    problems.append( "Read Tag Old[0-2] succeeds with %r on a simulator configured without tag Old" % ( second[2][1], ))
if second[3][0] == 0:
    problems.append( "Write Tag Old[0] is acknowledged on a simulator configured without tag Old" )
if problems:
    print( "OBSERVED: " + "; ".join( problems ))
    print( "EXPECTED: CIP status 0x05 for the tag the running simulator does not define" )
    sys.exit( 1 )
print( "OK" )
