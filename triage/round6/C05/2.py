#!/usr/bin/env python
"""
C05 contradiction 2 (unchanged code): well-formed Write Tag requests that no tag can accept are not
answered with a failure indication; the simulator fails to parse them and ends the session instead:

  a) Write Tag with a zero element count ( and hence no data ),
  b) Write Tag declaring a data type the simulator has no parser for ( eg. DWORD 0x00D3 ), with data.

Expected ( property C05: "zero counts", "writes a data type the tag cannot hold" ): a reply carrying a
CIP failure status ( 0xFF + 0x2105 / 0x2107 ), the tag unchanged, and the session still usable.  The same
requests carried in a Multiple Service Packet *are* answered alone with a failure status.
"""
from __future__ import print_function
import logging, socket, sys, threading, time

import cpppo
from cpppo.server import enip
from cpppo.server.enip import client, device, logix, parser
from cpppo.server.enip.main import main as enip_main

logging.basicConfig( level=logging.CRITICAL )

ADDR				= ('127.0.0.1', 44818)

def start():
    device.lookup_reset()
    logix.setup_reset()
    kwargs			= {
        'argv':	  [ '--no-udp', '--address', '%s:%d' % ADDR, 'I=DINT[5]' ],
        'server': { 'control': cpppo.apidict( enip.timeout, { 'done': False } ) },
    }
    thr				= threading.Thread( target=enip_main, kwargs=kwargs )
    thr.daemon			= True
    thr.start()
    for _ in range( 100 ):
        try:
            socket.create_connection( ADDR, timeout=.2 ).close()
            break
        except Exception:
            time.sleep( .1 )
    return thr,kwargs

def read_tag( conn, tag ):
    for idx,dsc,op,rpy,sts,val in conn.synchronous( operations=client.parse_operations( [tag] )):
        return sts,val

def send_raw( conn, octets ):
    """Carry the encoded request in an Unconnected Send; return (enip status, CIP status, ext) of the reply"""
    req				= cpppo.dotdict()
    req.input			= bytearray( octets )
    conn.unconnected_send( request=req, route_path=[{'port':1,'link':0}],
                           send_path=[{'class':6},{'instance':1}], sender_context=b'defect2' )
    for rpy in conn:
        if rpy is not None:
            if rpy.enip.status != 0:
                return rpy.enip.status,None,None
            inner		= rpy.enip.CIP.send_data.CPF.item[1].unconnected_send.request
            return 0,inner.get( 'status' ),inner.get( 'status_ext.data' )
    return None,None,None

path_I				= b'\x91\x01I\x00'	# symbolic "I", padded
cases				= [
    ( "Write Tag I, DINT, 0 elements, no data",	b'\x4d\x02' + path_I + b'\xc4\x00' + b'\x00\x00' ),
    ( "Write Tag I, DWORD 0x00D3, 1 element",		b'\x4d\x02' + path_I + b'\xd3\x00' + b'\x01\x00' + b'\x07\x00\x00\x00' ),
]

thr,kwargs			= start()
problems			= []
try:
    for desc,octets in cases:
        with client.connector( host=ADDR[0], port=ADDR[1], timeout=5 ) as conn:
            assert read_tag( conn, 'I[0-4]' ) == (0,[0]*5)
            try:
                enip_sts,cip_sts,cip_ext = send_raw( conn, octets )
            except Exception as exc:
                enip_sts,cip_sts,cip_ext = "exception %r" % ( exc, ),None,None
            try:
                alive		= read_tag( conn, 'I[0-4]' )
            except Exception as exc:
                alive		= None
            print( "%-44s: EtherNet/IP status %r, CIP status %r %r; session afterwards: %s" % (
                desc, enip_sts, cip_sts, cip_ext, "alive, I == %r" % ( alive[1], ) if alive else "ENDED" ))
            if enip_sts != 0 or not cip_sts:
                problems.append( "%s: no CIP failure reply (EtherNet/IP status %r, CIP status %r)" % ( desc, enip_sts, cip_sts ))
            if not alive:
                problems.append( "%s: the session was ended" % desc )
        with client.connector( host=ADDR[0], port=ADDR[1], timeout=5 ) as conn:
            now			= read_tag( conn, 'I[0-4]' )
            if now != (0,[0]*5):
                problems.append( "%s: tag changed: %r" % ( desc, now ))
finally:
    kwargs['server']['control'].done = True
    thr.join( 10 )

if problems:
    print( "OBSERVED: " + "; ".join( problems ))
    print( "EXPECTED: a reply with a CIP failure status (0xFF + 0x2105 / 0x2107), tag unchanged, session usable" )
    sys.exit( 1 )
print( "OK" )
