#!/usr/bin/env python
"""
C05 contradiction 3 (unchanged code): a lone ( not bundled ) Read/Write Tag that names an unknown tag, or
an unknown object, is not answered with a CIP failure reply: the Connection Manager resolves the request
path itself before handing the request to the Message Router, the exception escapes, the UCMM answers with
EtherNet/IP encapsulation status 0x08 and the server closes the session -- taking with it the other
requests the client has already pipelined on that session.

Expected ( property C05 ): the request is answered with a failure indication ( CIP status 0x05, as the
very same request gets when it travels in a Multiple Service Packet ) and nothing else is affected: the
session, and the requests before and after it, carry on.
"""
from __future__ import print_function
import logging, socket, sys, threading, time

import cpppo
from cpppo.server import enip
from cpppo.server.enip import client, device, logix
from cpppo.server.enip.main import main as enip_main

logging.basicConfig( level=logging.CRITICAL )

ADDR				= ('127.0.0.1', 44818)

def start():
    device.lookup_reset()
    logix.setup_reset()
    kwargs			= {
        'argv':	  [ '--no-udp', '--address', '%s:%d' % ADDR, 'I=DINT[5]' ],
        'server': { 'control': cpppo.apidict( enip.timeout, { 'done': False } ) },
    }
    thr				= threading.Thread( target=enip_main, kwargs=kwargs )
    thr.daemon			= True
    thr.start()
    for _ in range( 100 ):
        try:
            socket.create_connection( ADDR, timeout=.2 ).close()
            break
        except Exception:
            time.sleep( .1 )
    return thr,kwargs

def run( conn, tags, **kwds ):
    """Returns [(description,status,value),...] for as many operations as were answered, and any exception"""
    done			= []
    try:
        for idx,dsc,op,rpy,sts,val in conn.pipeline( operations=client.parse_operations( tags ), **kwds ):
            done.append( (dsc.split()[-1],sts,val) )
    except Exception as exc:
        return done,exc
    return done,None

thr,kwargs			= start()
problems			= []
try:
    # Bundled: each is answered alone with CIP status 0x05, its neighbours succeed
    with client.connector( host=ADDR[0], port=ADDR[1], timeout=5 ) as conn:
        done,exc		= run( conn, ['I[0]', 'Nope', '@0x77/1/1', 'Nope=(DINT)1', 'I[1]'], depth=1, multiple=400 )
        print( "bundled  : %r %s" % ( done, exc or '' ))
        assert exc is None and [ s if not isinstance( s, tuple ) else s[0] for d,s,v in done ] == [0,5,5,5,0], \
            "Unexpected result for the bundled requests"

    # Lone
    for bad in ( 'Nope', 'Nope=(DINT)1', '@0x77/1/1', 'I.member' ):
        with client.connector( host=ADDR[0], port=ADDR[1], timeout=5 ) as conn:
            done,exc		= run( conn, ['I[0]', bad, 'I[1]', 'I[2]'], depth=4 )
            print( "lone %-14s: answered %r; then: %r" % ( bad, done, exc ))
            answered		= dict( (d,s) for d,s,v in done )
            if exc is not None or len( done ) != 4:
                problems.append( "%s: session ended (%r) after %d of 4 pipelined requests were answered" % (
                    bad, exc, len( done )))
            else:
                sts		= done[1][1]
                if not sts:
                    problems.append( "%s: answered with success" % bad )
finally:
    kwargs['server']['control'].done = True
    thr.join( 10 )

if problems:
    print( "OBSERVED: " + "; ".join( problems ))
    print( "EXPECTED: the request naming the unknown tag/object alone is answered with a CIP failure status (0x05); "
           "the session and its other requests carry on" )
    sys.exit( 1 )
print( "OK" )
