#!/usr/bin/env python
"""C01 contradiction (unchanged code): a CPF item list in which an item of an unrecognized type is
followed by any other item cannot be parsed.

CPF.__init__ parses an item whose type_id is not in CPF.ITEM_PARSERS with

    ilen[None] = urec = octets( 'unrecognized', context=None, terminal=True );  urec[True] = urec

ie. it swallows ALL remaining bytes instead of the item's own .length, so the items behind it are
never seen and the 'count' loop fails ("detected no progress").  A Forward Open reply carrying the two
Sockaddr Info items (0x8000, 0x8001), or a Sequenced Address item (0x8002) in front of a Connected
Data item, are ordinary examples.  CPF.produce emits such lists without complaint, so the produced
bytes are not accepted by the parser.

Expected: every item is delimited by its own length; the list parses into count items and produces
the same bytes again.
"""
from __future__ import print_function
import struct, sys, traceback
import cpppo
from cpppo.server.enip import parser

dd			= cpppo.dotdict

def item( type_id, payload ):
    return struct.pack( '<HH', type_id, len( payload )) + payload

def cpf( *items ):
    return struct.pack( '<H', len( items )) + b''.join( items )

sockaddr		= struct.pack( '>hHI8x', 2, 2222, 0xEF010203 )		# big-endian sockaddr_in
fo_reply		= b'\xd4\x00\x00\x00' + struct.pack( '<IIHHIII', 1, 2, 3, 4, 5, 6, 7 ) + b'\x00\x00'

cases			= [
    ( "Forward Open reply + O->T and T->O Sockaddr Info items",
      [ (0x0000, b''), (0x00b2, fo_reply), (0x8000, sockaddr), (0x8001, sockaddr) ] ),
    ( "Sequenced Address item + Connected Data item",
      [ (0x8002, struct.pack( '<II', 0x11223344, 7 )), (0x00b1, b'\x01\x00\xcc\x00\x00\x00') ] ),
    ( "ListInterfaces reply listing two (vendor specific) interface items",
      [ (0x0201, b'\x01\x00\x02\x00'), (0x0201, b'\x02\x00\x03\x00') ] ),
    ( "two unknown items",
      [ (0x8000, b'abc'), (0x9000, b'xyz') ] ),
]

bad			= 0
for name,items in cases:
    wire		= cpf( *[ item( t, p ) for t,p in items ] )
    # What CPF.produce makes of the equivalent dictionary (unknown items carry their raw .input)
    data		= dd()
    source		= cpppo.peekable( wire )
    try:
        with parser.CPF( terminal=True ) as machine:
            for m,s in machine.run( source=source, data=data ):
                pass
            assert machine.terminal, "parser did not reach a terminal state"
        got		= [ (i.type_id, i.length) for i in data.CPF.item ]
        exp		= [ (t, len( p )) for t,p in items ]
        assert got == exp, "items parsed as %r" % ( got, )
        again		= parser.CPF.produce( data.CPF )
        assert again == wire, "re-produced %r" % ( again, )
    except Exception as exc:
        bad	       += 1
        print( "%s:\n  wire     %s\n  observed %s: %s\n  expected %d items %r, and the same bytes produced again" % (
            name, wire.hex() if hasattr( wire, 'hex' ) else repr( wire ), type( exc ).__name__, str( exc )[:120],
            len( items ), [ (hex(t), len( p )) for t,p in items ] ))
sys.exit( 1 if bad else 0 )
