#!/usr/bin/env python
"""C01 contradiction (unchanged code): a Read Tag [Fragmented] reply of type STRUCT (0x02A0) that
carries the structure handle but no data bytes is produced by Logix.produce, yet its own parser
refuses it.

typed_data.__init__ even says that this can happen ("In theory, there could be a .structure_tag
followed by no data (eg. if you do a Read Tag Fragmented with an offset to exactly the end of the
structure.)") and prepares an empty .data.input for it with the initializer of its 'mov_struct'
move_if -- but move_if.execute pops the absent source '.STRUCT.data' regardless and raises
AssertionError( "Could not find 'read_frag.STRUCT.data' to move ..." ).

Expected: the reply parses to .type 0x02a0, .structure_tag, and an empty .data.input, and produces
the same 8 bytes again.
"""
from __future__ import print_function
import struct, sys
import cpppo
from cpppo.server.enip import logix

dd			= cpppo.dotdict
bad			= 0
for service,ctx in (( 0xd2, 'read_frag' ), ( 0xcc, 'read_tag' )):
    reply		= dd( service=service, status=0 )
    reply[ctx]		= dd( type=0x02a0, structure_tag=0x0fce, data=dd( input=bytearray() ))
    wire		= logix.Logix.produce( reply )
    assert wire == struct.pack( '<BBBBHH', service, 0, 0, 0, 0x02a0, 0x0fce ), wire
    back		= dd()
    try:
        with logix.Logix.parser as machine:
            for m,s in machine.run( source=cpppo.peekable( wire ), data=back ):
                pass
            assert machine.terminal, "parser not terminal"
        assert back[ctx].type == 0x02a0 and back[ctx].structure_tag == 0x0fce \
            and len( back[ctx].data.input ) == 0, "parsed %r" % ( back, )
        assert logix.Logix.produce( back ) == wire
    except Exception as exc:
        bad	       += 1
        print( "%s reply, STRUCT handle and no data: produced %s\n  observed %s: %s\n  expected it to parse (handle 0x0fce, empty data) and to be produced again" % (
            ctx, wire.hex(), type( exc ).__name__, str( exc )[:160] ))
sys.exit( 1 if bad else 0 )
