#!/usr/bin/env python
"""C01 contradiction (unchanged code): a [Large] Forward Open whose Network Connection Parameters
carry a connection size of 0 parses, but cannot be produced again.

The size field of the NCP word is 9 (small) / 16 (large) bits wide; 0 is a legal value (a Null
connection, or the heartbeat direction of an input-only / listen-only connection).  The parser
(Connection_decode -> defaults.Connection( NCP=... ).decoding) yields size == 0, but
Connection_Manager.produce rebuilds defaults.Connection( **fo.O_T ) from the decoded parameters, and
Connection.__init__ asserts 0 < size -- and would replace a 0 size by 510/4000 anyway ("size or ...").
The simulator's own forward_open handler (device.py: defaults.Connection( **fo.O_T )) trips over the
same assertion.

Expected: produce( parse( bytes )) == bytes for every value of the size field.
"""
from __future__ import print_function
import struct, sys
import cpppo
from cpppo.server.enip import device

CM			= device.Connection_Manager

def forward_open( large, O_T_ncp, T_O_ncp ):
    fmt			= '<I' if large else '<H'
    return ( ( b'\x5b' if large else b'\x54' ) + b'\x02\x20\x06\x24\x01'
             + struct.pack( '<BBIIHHIB3x', 5, 157, 0, 0x11223344, 0x1234, 0x4d, 0x12345678, 1 )
             + struct.pack( '<I', 2000000 ) + struct.pack( fmt, O_T_ncp )
             + struct.pack( '<I', 1000000 ) + struct.pack( fmt, T_O_ncp )
             + b'\xa3' + b'\x03\x01\x00\x20\x02\x24\x01' )

bad			= 0
for name,large,O_T_ncp,T_O_ncp in [
        ( "small, O->T heartbeat of size 0 (P2P, fixed), T->O 32 bytes",	False, 0x4000, 0x4020 ),
        ( "small, Null/Null (both NCP words 0)",				False, 0x0000, 0x0000 ),
        ( "large, T->O size 0 (P2P, variable)",				True,  0x42000FA0, 0x42000000 ),
]:
    wire		= forward_open( large, O_T_ncp, T_O_ncp )
    data		= cpppo.dotdict()
    with CM.parser as machine:
        for m,s in machine.run( source=cpppo.peekable( wire ), data=data ):
            pass
        assert machine.terminal
    sizes		= ( data.forward_open.O_T.size, data.forward_open.T_O.size )
    try:
        again		= CM.produce( data )
        assert again == wire, "produced %s" % ( again.hex(), )
    except Exception as exc:
        bad	       += 1
        print( "%s:\n  wire     %s\n  parsed   O_T.size == %d, T_O.size == %d\n  observed %s: %s\n  expected the same bytes produced again" % (
            name, wire.hex(), sizes[0], sizes[1], type( exc ).__name__, exc ))
sys.exit( 1 if bad else 0 )
