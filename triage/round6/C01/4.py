#!/usr/bin/env python
"""C01 contradiction (unchanged code): STRUCT.produce( ..., structure_tag=True ) -- used by
typed_data.produce for every Read Tag [Fragmented] reply of type 0x02A0 -- tests the structure tag
for truth ( "if structure_tag:" ) instead of for presence, so a UDT whose 16-bit structure handle is
0x0000 is produced WITHOUT the handle.  The parser then takes the first two data bytes for the
handle, and the last two bytes of the record are lost.

Expected: type (A0 02), structure handle (00 00), then the data -- for the whole 0..0xFFFF range of
the handle -- and the parse recovers handle and data.
"""
from __future__ import print_function
import struct, sys
import cpppo
from cpppo.server.enip import logix

dd			= cpppo.dotdict
payload			= b'\x11\x22\x33\x44\x55\x66\x77\x88'

bad			= 0
for service,ctx in (( 0xcc, 'read_tag' ), ( 0xd2, 'read_frag' )):
    for handle in ( 0x0fce, 0xffff, 0x0001, 0x0000 ):
        reply		= dd( service=service, status=0 )
        reply[ctx]	= dd( type=0x02a0, structure_tag=handle, data=dd( input=bytearray( payload )))
        expect		= struct.pack( '<BBBBHH', service, 0, 0, 0, 0x02a0, handle ) + payload
        produced	= logix.Logix.produce( reply )
        back		= dd()
        with logix.Logix.parser as machine:
            for m,s in machine.run( source=cpppo.peekable( produced ), data=back ):
                pass
        got		= ( back[ctx].get( 'structure_tag' ), bytes( bytearray( back[ctx].data.input )))
        if produced != expect or got != ( handle, payload ):
            bad	       += 1
            print( "%s reply, structure handle 0x%04x:\n  produced %s\n  expected %s\n  parsed back handle %r, data %s; encoded handle %r, data %s" % (
                ctx, handle, produced.hex(), expect.hex(), got[0], got[1].hex(), handle, payload.hex() ))
sys.exit( 1 if bad else 0 )
