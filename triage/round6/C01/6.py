#!/usr/bin/env python
"""C01 contradiction (unchanged code): three length-prefixed / NUL-terminated text fields are
produced with a length of 0 but cannot be parsed when empty, although SSTRING and STRING (which
have an explicit 'empty' branch) handle the same situation:

 - EPATH symbolic segment with an empty name:		91 00
 - EPATH port segment with an empty link address:	12 00
 - ListServices communications_service with an empty service_name

In each case the string_bytes sub-machine is entered with limit 0 ( or, for service_name, meets
the terminating NUL at once ), accepts nothing, and the enclosing dfa raises NonTerminal.

Expected: 0 is inside the stated 0..255 range of these length fields; the produced bytes parse back
to the empty text and produce the same bytes again.
"""
from __future__ import print_function
import struct, sys
import cpppo
from cpppo.server.enip import parser

dd			= cpppo.dotdict

def roundtrip( cls, value, expect ):
    wire		= cls.produce( value )
    assert wire == expect, "produced %r, expected %r" % ( wire, expect )
    data		= dd()
    with cls( terminal=True ) as machine:
        for m,s in machine.run( source=cpppo.peekable( wire ), data=data ):
            pass
        assert machine.terminal, "parser not terminal"
    again		= cls.produce( data[cls.__name__] )
    assert again == wire, "re-produced %r" % ( again, )
    return data[cls.__name__]

bad			= 0
for name,cls,value,expect,check in [
        ( "EPATH with an empty symbolic segment", parser.EPATH,
          dd( segment=[ dd( symbolic='' ), dd( element=1 ) ] ), b'\x02\x91\x00\x28\x01',
          lambda d: d.segment[0] == { 'symbolic': '' } ),
        ( "route_path with an empty link address", parser.route_path,
          dd( segment=[ dd( port=2, link='' ) ] ), b'\x01\x00\x12\x00',
          lambda d: d.segment[0] == { 'port': 2, 'link': '' } ),
        ( "communications_service with an empty name", parser.communications_service,
          dd( version=1, capability=0x120, service_name='' ), b'\x01\x00\x20\x01\x00',
          lambda d: d.service_name == '' ),
]:
    try:
        got		= roundtrip( cls, value, expect )
        assert check( got ), "parsed %r" % ( got, )
    except Exception as exc:
        bad	       += 1
        print( "%s: bytes %s\n  observed %s: %s\n  expected the empty text to be recovered" % (
            name, expect.hex(), type( exc ).__name__, str( exc )[:140] ))
sys.exit( 1 if bad else 0 )
