#!/usr/bin/env python
"""C01 contradiction (unchanged code): an UnregisterSession message (command 0x0066) parses into
enip.CIP.unregister == True, but CIP.produce cannot produce it: parser.unregister (an octets_noop
with only a .terminate) has no .produce, so CIP.produce raises AttributeError -- for the parsed
message as well as for a hand-built { 'command': 0x0066, 'CIP.unregister': True }.  CIP.produce's
own docstring lists .CIP.unregister among the things it expects.

Expected: CIP.produce yields the (empty) command-specific payload, and enip_encode the original 24 bytes.
Repair: give unregister a   @staticmethod def produce( data ): return b''
"""
from __future__ import print_function
import struct, sys
import cpppo
from cpppo.server.enip import parser

wire			= struct.pack( '<HHII8sI', 0x0066, 0, 0x11223344, 0, b'abcdefgh', 0 )

data			= cpppo.dotdict()
source			= cpppo.chainable( wire )
with parser.enip_machine( context='enip', terminal=True ) as machine:
    for m,s in machine.run( source=source, data=data ):
        pass
    assert machine.terminal
with parser.CIP( terminal=True ) as machine:
    for m,s in machine.run( path='enip', source=cpppo.peekable( data.enip.get( 'input', b'' )), data=data ):
        pass
    assert machine.terminal
assert data.enip.CIP.unregister is True, "UnregisterSession not recognized: %r" % ( data, )

bad			= 0
for name,enip in (
        ( "parsed UnregisterSession", data.enip ),
        ( "hand-built UnregisterSession", cpppo.dotdict({
            'command': 0x0066, 'session_handle': 0x11223344, 'status': 0, 'options': 0,
            'sender_context': { 'input': bytearray( b'abcdefgh' ) }, 'CIP': { 'unregister': True }}))):
    enip.pop( 'input', None )
    try:
        enip.input	= bytearray( parser.CIP.produce( enip ))
        again		= parser.enip_encode( enip )
        assert again == wire, "produced %r" % ( again, )
    except Exception as exc:
        bad	       += 1
        print( "%s: observed %s: %s\n  expected the 24-byte message %s" % (
            name, type( exc ).__name__, exc, wire.hex() ))
sys.exit( 1 if bad else 0 )
