#!/usr/bin/env python
"""C12 defect 1: a lone Read Tag Fragmented that its target Object refuses ends the whole run.

Input:    operations [ 'Int[0]', '@1/1/7', 'Int[1]' ] with fragment=True ( client --fragment ): the
          middle one is a Read Tag Fragmented ( service 0x52 ) addressed to the Identity Object, which
          knows no such service.
Observed: unbundled ( multiple=0, any depth ) the run dies with
              SENDStatusError: Response EtherNet/IP Un/Connected Send status: 0x08
          and yields no result for the third operation; bundled ( multiple=500 ) the same list yields
          three results, the middle one refused with CIP status 0x08.  With fragment=False ( Read Tag,
          0x4C ) the unbundled run yields the three results, too.
Expected: one result per operation, the same statuses whether bundled or not:
              [ (0,[0]), (8,None), (0,[0]) ]
Cause:    the error reply the simulator makes for a lone request its target cannot parse
          ( Connection_Manager.request, device.py, since the repairs de3830a / ea19f13 ) is
          D2 00 08 00 -- no extended status.  For service 0x52 that is, octet for octet, a failed
          Unconnected Send ( parser.unconnected_send.is_uerr: "status < 0x10 and no extended status" ),
          which the client raises as SENDStatusError.  Logix itself always attaches an extended status
          word to its 0xD2 error replies for exactly this reason ( logix.py:310-321 ).
Repair:   keep ( or add ) an extended status word 0x0000 on the error reply when the refused service
          is 0x52 and the status is below 0x10.
"""
from __future__ import print_function
import os, sys
sys.path.insert( 0, os.path.dirname( os.path.abspath( __file__ )))
from common import start, run, client

PORT				= 44941

def main():
    control			= start( PORT, [ 'Int@0x99/1/1=INT[10]' ] )
    try:
        tags			= [ 'Int[0]', '@1/1/7', 'Int[1]' ]
        expected		= [ (0,[0]), (8,None), (0,[0]) ]
        bad			= []
        for fragment in (False, True):
            for depth,multiple in [ (0,0), (2,0), (0,500), (2,500) ]:
                got		= run( PORT, client.parse_operations( tags, fragment=fragment ),
                                       depth=depth, multiple=multiple, fragment=fragment )
                print( "fragment %-5s depth %d multiple %3d: %r" % ( fragment, depth, multiple, got ))
                if got != expected:
                    bad.append( "fragment=%s depth=%d multiple=%d: observed %r, expected %r" % (
                        fragment, depth, multiple, got, expected ))
        if bad:
            print( "DEFECT: results depend on bundling when a lone Read Tag Fragmented is refused:\n  "
                   + "\n  ".join( bad ))
            return 1
        print( "OK" )
        return 0
    finally:
        control['done']		= True

if __name__ == "__main__":
    sys.exit( main() )
