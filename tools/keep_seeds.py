#!/usr/bin/env python3
"""Copy confirmed seeded changes from the sub-agents' scratch areas into /verif/seeded/<id>/ (patch.diff, demo.py, meta.json).
usage: keep_seeds.py <ID>-<k>[=<candidate dir>] ...   (default candidate dir /tmp/wt/<ID>/out/<k>/; reads its confirm.json written by confirm_seed.py)"""
import json, os, shutil, sys
VERIF = os.path.dirname( os.path.dirname( os.path.abspath( __file__ )))
INITIAL = json.load( open( os.path.join( VERIF, 'seeded', 'initial_status.json' ))) if os.path.exists( os.path.join( VERIF, 'seeded', 'initial_status.json' )) else {}
for label in sys.argv[1:]:
    label, _, given = label.partition( '=' )
    pid, k = label.split( '-' )
    src = given or '/tmp/wt/%s/out/%s' % ( pid, k )
    cf = json.load( open( os.path.join( src, 'confirm.json' )))
    ok = cf.get( 'demo_clean_rc' ) == 0 and cf.get( 'demo_patched_rc' ) not in ( 0, None ) and cf.get( 'compile_rc' ) == 0 and not cf.get( 'suite_stable_missing' ) and 'suite_stable_passed' in cf
    if not ok:
        print( label, 'NOT CONFIRMED', { k_: cf.get( k_ ) for k_ in ( 'demo_clean_rc', 'demo_patched_rc', 'compile_rc', 'suite_stable_missing', 'patch_rc' ) } )
        continue
    dst = os.path.join( VERIF, 'seeded', label )
    os.makedirs( dst, exist_ok=True )
    shutil.copy( os.path.join( src, 'patch.diff' ), dst )
    shutil.copy( os.path.join( src, 'demo.py' ), dst )
    meta = json.load( open( os.path.join( src, 'meta.json' )))
    meta.update( dict(
        property=pid,
        confirmed=dict( repo_head=cf.get( 'repo_head' ), demo_clean_rc=cf['demo_clean_rc'], demo_patched_rc=cf['demo_patched_rc'],
                        demo_patched_output=cf.get( 'demo_patched_tail', '' )[-400:],
                        suite='pinned baseline in a scratch worktree with the patch applied: %d of 89 stable tests passed, none missing' % cf['suite_stable_passed'],
                        how='tools/confirm_seed.py (scratch git worktree of /repo HEAD, private network namespace); never applied in /repo' ),
        caught_by={ p: v.get( 'lines', [] )[:4] for p, v in cf.get( 'checks_fired', {} ).items() if v.get( 'rc' ) == 1 },
        undecided_by=[ p for p, v in cf.get( 'checks_fired', {} ).items() if v.get( 'rc' ) == 2 ],
        initially=INITIAL.get( label, 'not recorded' ),
    ))
    json.dump( meta, open( os.path.join( dst, 'meta.json' ), 'w' ), indent=1 )
    print( label, 'kept; caught by', sorted( meta['caught_by'] ), 'initially:', meta['initially'] )
