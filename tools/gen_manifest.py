#!/usr/bin/env python3
"""Regenerate /verif/MANIFEST.json from sa/props.py (claimed properties) and the NOT_APPLICABLE table below."""
import json, os, sys

HERE = os.path.dirname( os.path.dirname( os.path.abspath( __file__ )))
sys.path.insert( 0, HERE )
from sa import cli
props = cli.load_rules()

NOT_APPLICABLE = {
}
PENDING = 'check not yet built in this framework revision (static rules designed in DESIGN.md section 5, not yet implemented)'

ALL = [ 'C%02d' % i for i in range( 1, 21 ) ]

checks = []
for pid in ALL:
    spec = props.PROPS.get( pid )
    if spec is None:
        continue
    checks.append( dict(
        property_id=pid,
        quick_cmd='./check %s quick' % pid,
        thorough_cmd='./check %s thorough' % pid,
        evidence_file='evidence/%s.json' % pid,
        replay_cmd_template='python3-vt -m sa explain {path}',
        engine='sa',
        level_claimed=dict(
            category='other',
            text='Static analysis of the current source tree (AST, statement CFG, extracted grammar graphs): decides, for every '
                 'input/schedule at once, the structural clauses of the property that are visible in the shape of the code - '
                 + spec['decides'] + '  It does not decide: ' + spec['not_decided'],
            design_ref='DESIGN.md section 5 / %s' % pid ),
        level_note='Trusted: CPython ast/struct/re; hand-written CIP tables in sa/spec.py; consumption summaries of the automata '
                   'primitives (re-validated against the AST on each run); name/MRO based callee resolution. Rules: ' + ', '.join( spec['rules'] ),
        technique=spec['technique'],
    ))

na = []
for pid in ALL:
    if pid in props.PROPS:
        continue
    na.append( dict( property_id=pid, reason=NOT_APPLICABLE.get( pid, PENDING )))

manifest = dict(
    version=1,
    setup_cmd='python3-vt -m compileall -q sa tools >/dev/null && echo setup-ok',
    hooks=dict( guard='PJKUNDERT_CPPPO_VERIF', enable='none: no hook exists; the checks read source files only',
                baseline_off_cmd='cd /repo && /venv/bin/python -m pytest -ra -q -p no:cacheprovider --timeout=900 --continue-on-collection-errors',
                source_commits=[], add_only=True ),
    engines=[ dict( name='sa', path='sa/', serves_properties=[ c['property_id'] for c in checks ],
                    kind_free_text='repository-specific static analyser: AST source model, statement CFG with dominators and path '
                                   'effect counting, abstract interpreter of the grammar-construction code, producer layout extractor, '
                                   'hand-written CIP spec tables; stdlib only, never imports or runs the repository' ) ],
    checks=checks,
    not_applicable=na,
    notes='All checks are static (family: static analysis). Exit 0 = holds, 1 = VIOLATION (not in known_findings.json), '
          '2 = ANALYSIS-ERROR (undecided; never reported as a violation). Genuine defects repaired by fix: commits or listed in '
          'known_findings.json, see DESIGN.md section 7.',
)
with open( os.path.join( HERE, 'MANIFEST.json' ), 'w' ) as f:
    json.dump( manifest, f, indent=1 )
print( 'claimed', [ c['property_id'] for c in checks ] )
print( 'not_applicable', [ n['property_id'] for n in na ] )
