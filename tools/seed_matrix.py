#!/usr/bin/env python3
"""Re-evaluate every kept seeded change (/verif/seeded/<label>/patch.diff) against the CURRENT checks: export /repo's HEAD into a scratch
directory (never /repo itself), apply the patch, run every claimed property's check on it, record which report a VIOLATION.
Writes seeded/matrix.json and refreshes `caught_by` / `rules` in each meta.json.   usage: seed_matrix.py [label ...]"""
import json, os, re, shutil, subprocess, sys, tempfile
from concurrent.futures import ProcessPoolExecutor

VERIF = os.path.dirname( os.path.dirname( os.path.abspath( __file__ )))
SEEDED = os.path.join( VERIF, 'seeded' )
HEADDIR = os.environ.get( 'SM_HEADDIR' )


def sh( cmd, cwd=None ):
    p = subprocess.run( cmd, cwd=cwd, shell=isinstance( cmd, str ), stdout=subprocess.PIPE, stderr=subprocess.STDOUT )
    return p.returncode, p.stdout.decode( 'utf-8', 'replace' )


def one( label ):
    """all rules once on /repo's HEAD text with the patch applied in memory ( sa.seedreplay ), then grouped by property"""
    sys.path.insert( 0, VERIF )
    from sa import cli, seedreplay, core
    from sa.core import Ctx
    props = cli.load_rules()
    try:
        ov = seedreplay.overrides_for( os.path.join( SEEDED, label, 'patch.diff' ), HEADDIR )
    except seedreplay.DoesNotApply as exc:
        return label, dict( error='patch does not apply to /repo HEAD: %s' % exc )
    ctx = Ctx( HEADDIR, 'quick', overrides=ov )
    rule_ids = sorted( { r for spec in props.PROPS.values() for r in spec['rules'] } )
    results, errors = cli.run_rules( ctx, rule_ids )
    known, _ = cli.load_known()
    bad = { e.split( ':' )[0] for e in errors }
    fired = {}
    for pid, spec in sorted( props.PROPS.items() ):
        rules, lines = [], []
        for rid in spec['rules']:
            res = results.get( rid )
            fs = [ f for f in ( res.findings if res else [] ) if f.key not in known ]
            if fs:
                rules.append( rid )
                lines.extend( f.human().strip()[:260] for f in fs[:1] )
        if rules:
            fired[pid] = dict( rules=sorted( rules ), lines=lines[:3] )
        elif any( rid in bad for rid in spec['rules'] ):
            fired[pid] = dict( rules=[], lines=[ 'ANALYSIS-ERROR' ] + [ e[:200] for e in errors if e.split( ':' )[0] in spec['rules'] ][:2], undecided=True )
    return label, dict( fired=fired )


def main():
    labels = sys.argv[1:] or sorted( l for l in os.listdir( SEEDED ) if os.path.isdir( os.path.join( SEEDED, l )))
    head = sh( 'git -C /repo rev-parse --short HEAD' )[1].strip()
    matrix = dict( repo_head=head, seeds={} )
    global HEADDIR
    HEADDIR = tempfile.mkdtemp( prefix='sm_head_', dir='/tmp' )
    sh( 'git -C /repo archive HEAD | tar -x -C %s' % HEADDIR )
    os.environ['SM_HEADDIR'] = HEADDIR
    with ProcessPoolExecutor( max_workers=16 ) as ex:
        for label, r in ex.map( one, labels ):
            matrix['seeds'][label] = r
            mp = os.path.join( SEEDED, label, 'meta.json' )
            meta = json.load( open( mp ))
            own = meta.get( 'property' )
            if 'fired' in r:
                meta['caught_by'] = { p: v for p, v in r['fired'].items() if not v.get( 'undecided' ) }
                meta['undecided_by'] = [ p for p, v in r['fired'].items() if v.get( 'undecided' ) ]
                meta['caught_by_own_property'] = own in meta['caught_by']
                meta['evaluated_against'] = head
            else:
                meta['evaluation_error'] = r['error']
            json.dump( meta, open( mp, 'w' ), indent=1 )
            f = r.get( 'fired', {} )
            print( '%-8s own=%-3s %s' % ( label, 'yes' if own in f and not f[own].get( 'undecided' ) else 'NO', { p: v['rules'] for p, v in f.items() } if f else r ))
    shutil.rmtree( HEADDIR, ignore_errors=True )
    if not sys.argv[1:]:
        json.dump( matrix, open( os.path.join( SEEDED, 'matrix.json' ), 'w' ), indent=1 )


if __name__ == '__main__':
    main()
