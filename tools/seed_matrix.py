#!/usr/bin/env python3
"""Re-evaluate every kept seeded change (/verif/seeded/<label>/patch.diff) against the CURRENT checks: export /repo's HEAD into a scratch
directory (never /repo itself), apply the patch, run every claimed property's check on it, record which report a VIOLATION.
Writes seeded/matrix.json and refreshes `caught_by` / `rules` in each meta.json.   usage: seed_matrix.py [label ...]"""
import json, os, re, shutil, subprocess, sys, tempfile
from concurrent.futures import ThreadPoolExecutor

VERIF = os.path.dirname( os.path.dirname( os.path.abspath( __file__ )))
SEEDED = os.path.join( VERIF, 'seeded' )


def sh( cmd, cwd=None ):
    p = subprocess.run( cmd, cwd=cwd, shell=isinstance( cmd, str ), stdout=subprocess.PIPE, stderr=subprocess.STDOUT )
    return p.returncode, p.stdout.decode( 'utf-8', 'replace' )


def one( label ):
    d = os.path.join( SEEDED, label )
    tmp = tempfile.mkdtemp( prefix='sm_%s_' % label, dir='/tmp' )
    try:
        rc, out = sh( 'git -C /repo archive HEAD | tar -x -C %s' % tmp )
        rc, out = sh( 'patch -p1 -s --no-backup-if-mismatch < %s' % os.path.join( d, 'patch.diff' ), cwd=tmp )
        if rc:
            return label, dict( error='patch does not apply to /repo HEAD: ' + out[-200:] )
        props = [ c['property_id'] for c in json.load( open( os.path.join( VERIF, 'MANIFEST.json' )))['checks'] ]
        fired = {}
        for pid in props:
            rc2, out2 = sh( [ 'python3-vt', '-B', '-m', 'sa', 'check', pid, '--root', tmp, '--no-write' ], cwd=VERIF )
            if rc2 == 1:
                rules = sorted( set( re.findall( r': ([A-Z]-?[A-Z0-9-]+): ', out2 )))
                fired[pid] = dict( rules=rules, lines=[ l.strip()[:260] for l in out2.splitlines() if l.startswith( '  ' ) and re.search( r': [A-Z]-?[A-Z0-9-]+: ', l ) ][:3] )
            elif rc2 != 0:
                fired[pid] = dict( rules=[], lines=[ 'ANALYSIS-ERROR (rc=%d)' % rc2 ] + [ l[:200] for l in out2.splitlines() if 'ANALYSIS-ERROR' in l ][:2], undecided=True )
        return label, dict( fired=fired )
    finally:
        shutil.rmtree( tmp, ignore_errors=True )


def main():
    labels = sys.argv[1:] or sorted( l for l in os.listdir( SEEDED ) if os.path.isdir( os.path.join( SEEDED, l )))
    head = sh( 'git -C /repo rev-parse --short HEAD' )[1].strip()
    matrix = dict( repo_head=head, seeds={} )
    with ThreadPoolExecutor( max_workers=8 ) as ex:
        for label, r in ex.map( one, labels ):
            matrix['seeds'][label] = r
            mp = os.path.join( SEEDED, label, 'meta.json' )
            meta = json.load( open( mp ))
            own = meta.get( 'property' )
            if 'fired' in r:
                meta['caught_by'] = { p: v for p, v in r['fired'].items() if not v.get( 'undecided' ) }
                meta['undecided_by'] = [ p for p, v in r['fired'].items() if v.get( 'undecided' ) ]
                meta['caught_by_own_property'] = own in meta['caught_by']
                meta['evaluated_against'] = head
            else:
                meta['evaluation_error'] = r['error']
            json.dump( meta, open( mp, 'w' ), indent=1 )
            f = r.get( 'fired', {} )
            print( '%-8s own=%-3s %s' % ( label, 'yes' if own in f and not f[own].get( 'undecided' ) else 'NO', { p: v['rules'] for p, v in f.items() } if f else r ))
    json.dump( matrix, open( os.path.join( SEEDED, 'matrix.json' ), 'w' ), indent=1 )


if __name__ == '__main__':
    main()
