#!/bin/sh
# usage: tools/confirm_batch.sh <root> <jobs> <ID/k> ...   -- confirm_seed.py for several candidates at once ( each in its own worktree + netns )
ROOT="$1"; JOBS="$2"; shift 2
for c in "$@"; do
    label=$(python3 -c "import json;print(json.load(open('$ROOT/labels.json'))['$c'])")
    echo "$ROOT/$(echo $c | sed 's,/,/out/,') $label"
done | xargs -P "$JOBS" -L 1 sh -c 'python3 /verif/tools/confirm_seed.py "$0" "$1" 2>&1 | tail -1'
