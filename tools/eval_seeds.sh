#!/bin/sh
# usage: tools/eval_seeds.sh <root, e.g. /tmp/wt3> <ID> [<ID> ...]  -- evaluate every candidate <root>/<ID>/out/<k>/patch.diff with the check of its own property
ROOT="$1"; shift
for id in "$@"; do
    for d in "$ROOT/$id/out"/*/; do
        [ -f "$d/patch.diff" ] || continue
        k=$(basename "$d")
        echo "== $id-$k"
        sh /verif/tools/try_patch.sh "$d/patch.diff" "$id" 2>&1 | grep -v "^  rule\|KNOWN-FINDING" | cut -c1-260 | head -5
    done
done
