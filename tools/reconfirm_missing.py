#!/usr/bin/env python3
"""Re-run ALONE the pinned tests a confirmation run reported missing ( timing-sensitive ones fail under load ) with the candidate's patch applied,
in a scratch worktree and a private network namespace, and update the candidate's confirm.json.   usage: reconfirm_missing.py <candidate dir> ..."""
import json, os, shutil, subprocess, sys, tempfile, xml.etree.ElementTree as ET
for cand in sys.argv[1:]:
    cp = os.path.join( cand, 'confirm.json' )
    cf = json.load( open( cp ))
    missing = cf.get( 'suite_stable_missing' ) or []
    if not missing:
        print( cand, 'nothing missing' ); continue
    base = tempfile.mkdtemp( prefix='rm_', dir='/tmp' ); wt = os.path.join( base, 'cpppo' )
    try:
        subprocess.run( [ 'git', '-C', '/repo', 'worktree', 'add', '-q', '--detach', wt, 'HEAD' ], check=True )
        subprocess.run( 'patch -p1 -s --no-backup-if-mismatch < %s' % os.path.join( cand, 'patch.diff' ), shell=True, cwd=wt, check=True )
        still = []
        for t in missing:
            mod, name = t.rsplit( '::', 1 )
            path = mod.replace( '.', '/' ) + '.py'
            jx = os.path.join( base, 'j.xml' )
            env = dict( os.environ, PYTHONPATH=base, PYTHONDONTWRITEBYTECODE='1' )
            subprocess.run( [ 'unshare', '-n', 'sh', '-c', 'ip link set lo up; exec /venv/bin/python -m pytest -q -p no:cacheprovider --timeout=900 %s::%s --junitxml=%s' % ( path, name, jx ) ],
                            cwd=wt, env=env, stdout=subprocess.PIPE, stderr=subprocess.STDOUT )
            ok = os.path.exists( jx ) and any( not any( c.tag in ( 'failure', 'error', 'skipped' ) for c in tc ) for tc in ET.parse( jx ).getroot().iter( 'testcase' ) if tc.get( 'name' ) == name )
            if not ok:
                still.append( t )
        cf['suite_stable_passed'] = cf.get( 'suite_stable_passed', 0 ) + len( missing ) - len( still )
        cf['suite_stable_missing'] = still
        cf['suite_rerun_alone'] = [ t for t in missing if t not in still ]
        json.dump( cf, open( cp, 'w' ), indent=1 )
        print( cand, 'still missing:', still, 'passed alone:', cf['suite_rerun_alone'] )
    finally:
        subprocess.run( [ 'git', '-C', '/repo', 'worktree', 'remove', '--force', wt ] )
        shutil.rmtree( base, ignore_errors=True )
