#!/usr/bin/env python3
"""First evaluation of a round's candidate seeds against the checks AS THEY WERE when the round started ( a git worktree of /verif at that
commit ): usage: round_eval.py <snapshot dir of /verif> <root, e.g. /tmp/wt8> <out json> [ID ...]
For every <root>/<ID>/out/<k>/patch.diff: export /repo HEAD, apply, run the snapshot's check of property <ID>; record caught ( rules ) /
MISSED / undecided / patch-failed.  Existing entries of the json are kept ( a seed is first-evaluated once )."""
import json, os, re, shutil, subprocess, sys, tempfile
snap, root, outp = sys.argv[1:4]
ids = sys.argv[4:] or sorted( d for d in os.listdir( root ) if re.match( r'C\d\d[a-z]?$', d ))
res = json.load( open( outp )) if os.path.exists( outp ) else {}
for pid in ids:
    od = os.path.join( root, pid, 'out' )
    for k in sorted( os.listdir( od )) if os.path.isdir( od ) else []:
        pf = os.path.join( od, k, 'patch.diff' )
        key = '%s/%s' % ( pid, k )
        if not os.path.isfile( pf ) or key in res:
            continue
        tmp = tempfile.mkdtemp( prefix='re_', dir='/tmp' )
        try:
            subprocess.run( 'git -C /repo archive HEAD | tar -x -C %s' % tmp, shell=True, check=True )
            p = subprocess.run( 'patch -p1 -s --no-backup-if-mismatch < %s' % pf, shell=True, cwd=tmp, stdout=subprocess.PIPE, stderr=subprocess.STDOUT )
            if p.returncode:
                res[key] = dict( status='patch-failed' ); continue
            p = subprocess.run( [ 'python3-vt', '-B', '-m', 'sa', 'check', pid[:3], '--root', tmp, '--no-write' ], cwd=snap, stdout=subprocess.PIPE, stderr=subprocess.STDOUT )
            out = p.stdout.decode( 'utf-8', 'replace' )
            rules = sorted( set( re.findall( r'^  \S+:\d+ [^:]+: ([A-Z]-?[A-Z0-9-]+): ', out, re.M )))
            res[key] = dict( status={ 0: 'MISSED', 1: 'caught', 2: 'undecided' }.get( p.returncode, 'rc%d' % p.returncode ), rules=rules,
                             line=next(( l.strip()[:240] for l in out.splitlines() if l.startswith( '  ' ) and re.search( r': [A-Z]-?[A-Z0-9-]+: ', l )), '' ) if p.returncode == 1 else
                                  next(( l.strip()[:240] for l in out.splitlines() if 'ANALYSIS-ERROR' in l ), '' ))
        finally:
            shutil.rmtree( tmp, ignore_errors=True )
        print( key, res[key]['status'], res[key].get( 'rules' ), res[key].get( 'line', '' )[:140] )
        json.dump( res, open( outp, 'w' ), indent=1 )
