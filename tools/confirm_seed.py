#!/usr/bin/env python3
"""Confirm a seeded change produced by a sub-agent, in a scratch git worktree of /repo (never in /repo itself):
  1. the demonstration passes on the clean checkout (current /repo HEAD),
  2. the patch applies, the changed files still byte-compile,
  3. the demonstration fails with the patch applied,
  4. the pinned baseline tests (stable_pass of /root/.vp/BASELINE.json) still pass with the patch applied,
  5. which of /verif's static checks report a VIOLATION on the patched tree (and that they are silent on the clean one).
Writes <outdir>/confirm.json.   usage: confirm_seed.py <candidate dir with patch.diff, demo.py, meta.json> <label> [--no-suite]
"""
import json, os, shutil, subprocess, sys, tempfile, time, xml.etree.ElementTree as ET

VERIF = os.path.dirname( os.path.dirname( os.path.abspath( __file__ )))
PY = '/venv/bin/python'


def netns( cmd ):
    """run a command line inside a private network namespace (the tests bind fixed localhost ports)"""
    import shlex
    line = cmd if isinstance( cmd, str ) else ' '.join( shlex.quote( c ) for c in cmd )
    return [ 'unshare', '-n', 'sh', '-c', 'ip link set lo up; exec ' + line ]


def sh( cmd, cwd=None, env=None, timeout=3600 ):
    try:
        p = subprocess.run( cmd, cwd=cwd, env=env, shell=isinstance( cmd, str ), stdout=subprocess.PIPE, stderr=subprocess.STDOUT, timeout=timeout )
        return p.returncode, p.stdout.decode( 'utf-8', 'replace' )
    except subprocess.TimeoutExpired as exc:
        return 124, ( exc.stdout or b'' ).decode( 'utf-8', 'replace' ) + '\nTIMEOUT'


def stable_tests():
    b = json.load( open( '/root/.vp/BASELINE.json' ))
    return set( b['stable_pass'] )


def junit_passed( path ):
    passed, failed = set(), set()
    if not os.path.exists( path ):
        return passed, failed
    for tc in ET.parse( path ).getroot().iter( 'testcase' ):
        name = '%s::%s' % ( tc.get( 'classname' ), tc.get( 'name' ))
        bad = any( c.tag in ( 'failure', 'error' ) for c in tc )
        skipped = any( c.tag == 'skipped' for c in tc )
        if bad:
            failed.add( name )
        elif not skipped:
            passed.add( name )
    return passed, failed


def main():
    cand, label = sys.argv[1], sys.argv[2]
    run_suite = '--no-suite' not in sys.argv
    props = json.load( open( os.path.join( cand, 'meta.json' ))).get( 'property' )
    base = tempfile.mkdtemp( prefix='cf_%s_' % label, dir='/tmp' )
    wt = os.path.join( base, 'cpppo' )
    res = dict( label=label, candidate=cand, property=props, at=time.strftime( '%Y-%m-%dT%H:%M:%S' ))
    try:
        rc, out = sh( [ 'git', '-C', '/repo', 'worktree', 'add', '-q', '--detach', wt, 'HEAD' ] )
        if rc:
            res['error'] = 'worktree: ' + out; return res
        res['repo_head'] = sh( [ 'git', '-C', '/repo', 'rev-parse', '--short', 'HEAD' ] )[1].strip()
        env = dict( os.environ, PYTHONPATH=base, PYTHONDONTWRITEBYTECODE='1' )
        demo = os.path.join( cand, 'demo.py' )
        rc, out = sh( netns( [ PY, demo ] ), cwd=wt, env=env, timeout=600 )
        res['demo_clean_rc'] = rc; res['demo_clean_tail'] = out[-600:]
        rc, out = sh( 'patch -p1 -s --no-backup-if-mismatch < %s' % os.path.join( cand, 'patch.diff' ), cwd=wt )
        res['patch_rc'] = rc; res['patch_out'] = out[-400:]
        if rc:
            return res
        changed = sh( [ 'git', '-C', wt, 'diff', '--name-only' ] )[1].split()
        res['files_changed'] = changed
        rc, out = sh( [ PY, '-m', 'py_compile' ] + [ f for f in changed if f.endswith( '.py' ) ], cwd=wt, env=env )
        res['compile_rc'] = rc
        rc, out = sh( netns( [ PY, demo ] ), cwd=wt, env=env, timeout=600 )
        res['demo_patched_rc'] = rc; res['demo_patched_tail'] = out[-900:]
        # static checks on the patched tree (all claimed properties)
        m = json.load( open( os.path.join( VERIF, 'MANIFEST.json' )))
        fired = {}
        for c in m['checks']:
            pid = c['property_id']
            rc2, out2 = sh( [ 'python3-vt', '-B', '-m', 'sa', 'check', pid, '--root', wt, '--no-write' ], cwd=VERIF, timeout=300 )
            if rc2 != 0:
                fired[pid] = dict( rc=rc2, lines=[ l for l in out2.splitlines() if l.startswith( 'VIOLATION' ) or l.startswith( 'ANALYSIS-ERROR' ) or l.startswith( '  ' ) and ':' in l and 'rule ' not in l ][:8] )
        res['checks_fired'] = fired
        if run_suite:
            jx = os.path.join( base, 'junit.xml' )
            t0 = time.time()
            rc, out = sh( netns( [ PY, '-m', 'pytest', '-q', '-p', 'no:cacheprovider', '--timeout=900', '--continue-on-collection-errors', '--junitxml=' + jx ] ),
                          cwd=wt, env=env, timeout=3000 )
            passed, failed = junit_passed( jx )
            stable = stable_tests()
            res['suite_wall_s'] = round( time.time() - t0 )
            res['suite_stable_passed'] = len( stable & passed )
            res['suite_stable_missing'] = sorted( stable - passed )
            res['suite_tail'] = out[-500:]
        return res
    finally:
        sh( [ 'git', '-C', '/repo', 'worktree', 'remove', '--force', wt ] )
        shutil.rmtree( base, ignore_errors=True )
        with open( os.path.join( cand, 'confirm.json' ), 'w' ) as f:
            json.dump( res, f, indent=1 )
        ok = res.get( 'demo_clean_rc' ) == 0 and res.get( 'demo_patched_rc' ) not in ( 0, None ) and res.get( 'compile_rc' ) == 0 \
            and ( not run_suite or not res.get( 'suite_stable_missing' ))
        print( '%-10s confirmed=%s demo clean/patched=%s/%s stable-missing=%s fired=%s' % (
            label, ok, res.get( 'demo_clean_rc' ), res.get( 'demo_patched_rc' ), res.get( 'suite_stable_missing' ), sorted( res.get( 'checks_fired', {} )) ))


if __name__ == '__main__':
    main()
