#!/usr/bin/env python3
"""labels for a round's candidates: <root>/<ID>/out/<k> -> <ID>-<next free number>; kept stable in <root>/labels.json"""
import json, os, re, sys
root = sys.argv[1]
VERIF = os.path.dirname( os.path.dirname( os.path.abspath( __file__ )))
lp = os.path.join( root, 'labels.json' )
labels = json.load( open( lp )) if os.path.exists( lp ) else {}
used = { l for l in os.listdir( os.path.join( VERIF, 'seeded' )) } | set( labels.values())
for pid in sorted( d for d in os.listdir( root ) if re.match( r'C\d\d[a-z]?$', d )):
    od = os.path.join( root, pid, 'out' )
    for k in sorted( os.listdir( od )) if os.path.isdir( od ) else []:
        key = '%s/%s' % ( pid, k )
        if key in labels or not os.path.isfile( os.path.join( od, k, 'patch.diff' )):
            continue
        prop = pid[:3]
        n = max( [ 21 ] + [ int( u.split( '-' )[1] ) for u in used if u.startswith( prop + '-' ) and u.split( '-' )[1].isdigit() ] ) + 1
        labels[key] = '%s-%d' % ( prop, n ); used.add( labels[key] )
json.dump( labels, open( lp, 'w' ), indent=1 )
for k, v in sorted( labels.items()):
    print( k, v )
