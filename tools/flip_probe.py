#!/usr/bin/env python3
"""Robustness probe (developer tool): flip single comparisons in the functions the rules read - `a < b` -> `b > a`, `a == b` -> `b == a`,
`a is not b` -> `b is not a` (behaviour-preserving for the side-effect-free operands used in this code base; `in` / `not in` are left alone) -
one comparison per variant, re-run all rules in memory.  Any new finding or analysis error is a false alarm of the checker.
usage: flip_probe.py [--only RULES] [file ...]"""
import ast, os, sys
from concurrent.futures import ProcessPoolExecutor

HERE = os.path.dirname( os.path.dirname( os.path.abspath( __file__ )))
sys.path.insert( 0, HERE )
from sa import cli, core
from sa.core import Ctx, RULES
from tools.rename_probe import FILES

FLIP = { ast.Lt: '>', ast.Gt: '<', ast.LtE: '>=', ast.GtE: '<=', ast.Eq: '==', ast.NotEq: '!=', ast.Is: 'is', ast.IsNot: 'is not' }
ONLY = None


def pure( e ):
    return not any( isinstance( n, ( ast.Call, ast.Yield, ast.Await, ast.NamedExpr )) for n in ast.walk( e ))


def variants( src ):
    lines = src.text.split( '\n' )
    for n in ast.walk( src.tree ):
        if isinstance( n, ast.Compare ) and len( n.ops ) == 1 and type( n.ops[0] ) in FLIP and n.lineno == n.end_lineno:
            a, b = n.left, n.comparators[0]
            if not ( pure( a ) and pure( b )):
                continue
            raw = lines[n.lineno-1].encode( 'utf-8' )
            new = '( ( %s ) %s ( %s ) )' % ( ast.unparse( b ), FLIP[type( n.ops[0] )], ast.unparse( a ))	# operands parenthesised (unparse drops the source's own parentheses)
            line = ( raw[:n.col_offset] + new.encode() + raw[n.end_col_offset:] ).decode( 'utf-8' )
            text = '\n'.join( lines[:n.lineno-1] + [ line ] + lines[n.lineno:] )
            yield n.lineno, ast.unparse( n ), text


def baseline():
    cli.load_rules()
    results, errors = cli.run_rules( Ctx(), ONLY or sorted( RULES ))
    return { f.key for r in results.values() for f in r.findings }


def probe( args ):
    rel, ln, what, text, base, only = args
    cli.load_rules()
    try:
        compile( text, rel, 'exec' )
    except SyntaxError as exc:
        return rel, ln, what, 'SKIP', []
    results, errors = cli.run_rules( Ctx( overrides={ rel: text } ), only or sorted( RULES ))
    new = [ f for r in results.values() for f in r.findings if f.key not in base ]
    msgs = [ 'VIOLATION %s: %s' % ( f.rule, f.construct[:90] ) for f in new ] + [ 'ANALYSIS-ERROR ' + e[:140] for e in errors ]
    return rel, ln, what, 'BAD' if msgs else 'ok', msgs


def main():
    global ONLY
    argv = sys.argv[1:]
    if '--only' in argv:
        i = argv.index( '--only' ); ONLY = argv[i+1].split( ',' ); del argv[i:i+2]
    base = baseline()
    jobs = []
    for rel in argv or FILES:
        src = core.Src( core.REPO, rel )
        for ln, what, text in variants( src ):
            jobs.append(( rel, ln, what, text, base, ONLY ))
    print( 'variants', len( jobs ))
    bad = 0
    with ProcessPoolExecutor( max_workers=8 ) as ex:
        for rel, ln, what, status, msgs in ex.map( probe, jobs, chunksize=8 ):
            if status == 'BAD':
                bad += 1
                print( '%s:%d flip %s -> BAD' % ( rel, ln, what[:80] ))
                for m in msgs[:3]:
                    print( '      ' + m )
    print( 'bad', bad, 'of', len( jobs ))


if __name__ == '__main__':
    main()
