#!/usr/bin/env python3
"""Demonstration of a candidate / kept seed against the CURRENT /repo HEAD ( a scratch export, private network namespace ): exit code of
demo.py on the clean export and with patch.diff applied.   usage: recheck_demo.py <dir with patch.diff demo.py> [...]   -> one line each"""
import os, shutil, subprocess, sys, tempfile
from concurrent.futures import ThreadPoolExecutor
def one( d ):
    base = tempfile.mkdtemp( prefix='rd_', dir='/tmp' )
    wt = os.path.join( base, 'cpppo' ); os.mkdir( wt )
    try:
        subprocess.run( 'git -C /repo archive HEAD | tar -x -C %s' % wt, shell=True, check=True )
        env = dict( os.environ, PYTHONPATH=base, PYTHONDONTWRITEBYTECODE='1' )
        def demo():
            p = subprocess.run( [ 'unshare', '-n', 'sh', '-c', 'ip link set lo up; exec /venv/bin/python %s' % os.path.join( d, 'demo.py' ) ], cwd=wt, env=env, stdout=subprocess.PIPE, stderr=subprocess.STDOUT, timeout=900 )
            return p.returncode
        c = demo()
        p = subprocess.run( 'patch -p1 -s --no-backup-if-mismatch < %s' % os.path.join( d, 'patch.diff' ), shell=True, cwd=wt, stdout=subprocess.PIPE, stderr=subprocess.STDOUT )
        if p.returncode:
            return d, c, 'patch-failed'
        return d, c, demo()
    except Exception as exc:
        return d, None, repr( exc )
    finally:
        shutil.rmtree( base, ignore_errors=True )
with ThreadPoolExecutor( max_workers=6 ) as ex:
    for d, c, p in ex.map( one, sys.argv[1:] ):
        print( '%-40s clean=%s patched=%s %s' % ( d, c, p, 'OK' if c == 0 and p not in ( 0, None, 'patch-failed' ) and not isinstance( p, str ) else 'ATTENTION' ), flush=True )
