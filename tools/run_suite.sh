#!/bin/sh
# usage: run_suite.sh <dir holding cpppo/>   -> prints "N of 89 [missing]"
D=$1
cd $D/cpppo && PYTHONPATH=$D PYTHONDONTWRITEBYTECODE=1 unshare -n sh -c "ip link set lo up; exec /venv/bin/python -m pytest -q -p no:cacheprovider --timeout=900 --continue-on-collection-errors --junitxml=$D/junit.xml" > $D/out.txt 2>&1
python3-vt - $D <<'PY'
import json, sys, xml.etree.ElementTree as ET
st=set(json.load(open('/root/.vp/BASELINE.json'))['stable_pass'])
p=set()
for tc in ET.parse(sys.argv[1]+'/junit.xml').getroot().iter('testcase'):
    if not any(c.tag in('failure','error','skipped') for c in tc): p.add('%s::%s'%(tc.get('classname'),tc.get('name')))
print(len(st&p),'of',len(st),sorted(st-p))
PY
