#!/usr/bin/env python3
"""Regenerate DESIGN.md section 12 (between the SEED-TABLE markers) from seeded/*/meta.json and seeded/matrix.json."""
import json, os, re
VERIF = os.path.dirname( os.path.dirname( os.path.abspath( __file__ )))
SEEDED = os.path.join( VERIF, 'seeded' )
rows = []
for label in sorted( l for l in os.listdir( SEEDED ) if os.path.isdir( os.path.join( SEEDED, l ))):
    m = json.load( open( os.path.join( SEEDED, label, 'meta.json' )))
    files = ', '.join( m.get( 'files_changed', [] ))[:60]
    summ = re.sub( r'\s+', ' ', m.get( 'summary', '' ))
    summ = summ[:230] + ( '...' if len( summ ) > 230 else '' )
    cb = m.get( 'caught_by', {} )
    own = m.get( 'property' )
    rules = sorted( { r for v in cb.values() for r in ( v.get( 'rules', [] ) if isinstance( v, dict ) else [] ) } )
    others = sorted( p for p in cb if p != own )
    rows.append( '| %s | %s | %s | %s | %s%s | %s |' % (
        label, files, summ.replace( '|', '/' ), ( m.get( 'needs_to_manifest', '' )[:110] + '...' ).replace( '|', '/' ).replace( '\n', ' ' ),
        ', '.join( '`%s`' % r for r in rules ) or '-', ( ' (also fires under ' + ', '.join( others ) + ')' ) if others else '',
        m.get( 'initially', '' ).replace( '|', '/' ) ))
table = '\n'.join( [ '| seed | file(s) | change | needs, to manifest | caught by (current checks) | when first evaluated |', '|---|---|---|---|---|---|' ] + rows )
p = os.path.join( VERIF, 'DESIGN.md' )
s = open( p ).read()
a, b = '<!-- SEED-TABLE-BEGIN -->', '<!-- SEED-TABLE-END -->'
if a in s:
    s = s[:s.index( a ) + len( a )] + '\n' + table + '\n' + s[s.index( b ):]
    open( p, 'w' ).write( s )
print( len( rows ), 'rows' )
