#!/bin/sh
# usage: tools/try_patch.sh <patch.diff> <Cxx> [<Cyy> ...]   -- run the static checks against a scratch copy of /repo's HEAD with the patch applied
# (developer aid for evaluating seeded changes; the registered checks always run against /repo itself)
P="$1"; shift
D=$(mktemp -d /tmp/trypatch.XXXXXX)
git -C /repo archive HEAD | tar -x -C "$D"
if ! ( cd "$D" && patch -p1 -s --no-backup-if-mismatch < "$P" ); then echo "PATCH-FAILED $P"; rm -rf "$D"; exit 3; fi
cd /verif
rc=0
for prop in "$@"; do
    python3-vt -B -m sa check "$prop" --root "$D" --no-write | grep -E "^(VIOLATION|ANALYSIS-ERROR|  [a-z/_.]+:[0-9]+|C[0-9]+ tier)" | cut -c1-330
done
rm -rf "$D"
