#!/usr/bin/env python3
"""Robustness probe (developer tool): for every function the rules anchor in, rename each *local* variable (never a parameter,
global or attribute) consistently throughout the function - a behaviour-preserving edit - and re-run every rule on the in-memory
variant.  Any finding or analysis error that the unchanged tree does not have is a false alarm of the checker.
usage: rename_probe.py [file ...]    (default: all files the rules read)"""
import ast, os, sys, io, tokenize, json
from concurrent.futures import ProcessPoolExecutor

HERE = os.path.dirname( os.path.dirname( os.path.abspath( __file__ )))
sys.path.insert( 0, HERE )
from sa import cli, core
from sa.core import Ctx, RULES

FILES = [ 'automata.py', 'dotdict.py', 'remote/plc_modbus.py', 'history/times.py', 'history/files.py', 'misc.py', 'server/tnetstrings.py', 'server/tnet.py',
          'server/network.py', 'server/enip/parser.py', 'server/enip/device.py', 'server/enip/logix.py', 'server/enip/ucmm.py', 'server/enip/main.py',
          'server/enip/client.py', 'server/enip/get_attribute.py', 'server/enip/poll.py', 'server/enip/defaults.py' ]


def local_names( fn ):
    params = { a.arg for a in fn.args.args + fn.args.kwonlyargs } | ( { fn.args.vararg.arg } if fn.args.vararg else set()) | ( { fn.args.kwarg.arg } if fn.args.kwarg else set())
    glob = set()
    for n in ast.walk( fn ):
        if isinstance( n, ( ast.Global, ast.Nonlocal )):
            glob |= set( n.names )
    stores = set()
    cls_names = set()		# names bound in nested class bodies are attributes, not locals: renaming them is not behaviour-preserving
    for c in ast.walk( fn ):
        if isinstance( c, ast.ClassDef ):
            for s in c.body:
                for n in ast.walk( s ) if not isinstance( s, ( ast.FunctionDef, ast.ClassDef )) else ():
                    if isinstance( n, ast.Name ) and isinstance( n.ctx, ast.Store ):
                        cls_names.add( n.id )
    for n in ast.walk( fn ):
        if isinstance( n, ast.Name ) and isinstance( n.ctx, ast.Store ) and n.id not in cls_names:
            stores.add( n.id )
    # names also bound by nested defs / used as free variables in nested functions are still local to fn: renaming all Name occurrences inside fn is consistent
    return sorted( stores - params - glob )


def rename_in_function( text, fn, old, new ):
    """rename every ast.Name `old` inside fn (nested functions included) using the exact AST positions (attribute and keyword names are
    not ast.Name nodes, so they are untouched)"""
    lines = text.split( '\n' )
    spots = []
    for n in ast.walk( fn ):
        if isinstance( n, ast.Name ) and n.id == old:
            spots.append(( n.lineno, n.col_offset ))
        elif isinstance( n, ast.arg ) and n.arg == old and n is not None:
            return text			# a nested function has a parameter of the same name: skip (scoping differs)
    for ln, col in sorted( set( spots ), reverse=True ):
        raw = lines[ln-1].encode( 'utf-8' )
        if raw[col:col+len( old )] != old.encode():
            return text
        lines[ln-1] = ( raw[:col] + new.encode() + raw[col+len( old ):] ).decode( 'utf-8' )
    return '\n'.join( lines )


ONLY = None

def baseline_keys():
    cli.load_rules()
    ctx = Ctx()
    results, errors = cli.run_rules( ctx, ONLY or sorted( RULES ))
    return { f.key for r in results.values() for f in r.findings }, set( e.split( ':' )[0] for e in errors )


def probe( args ):
    rel, qn, old, text, base_keys, only = args
    cli.load_rules()
    ctx = Ctx( overrides={ rel: text } )
    try:
        compile( text, rel, 'exec' )
    except SyntaxError as exc:
        return ( rel, qn, old, 'SKIP-syntax %s' % exc, [] )
    results, errors = cli.run_rules( ctx, only or sorted( RULES ))
    new = [ f for r in results.values() for f in r.findings if f.key not in base_keys ]
    msgs = [ 'VIOLATION %s: %s' % ( f.rule, f.construct[:90] ) for f in new ] + [ 'ANALYSIS-ERROR ' + e[:140] for e in errors ]
    return ( rel, qn, old, 'ok' if not msgs else 'BAD', msgs )


def main():
    global ONLY
    argv = sys.argv[1:]
    if '--only' in argv:
        i = argv.index( '--only' ); ONLY = argv[i+1].split( ',' ); del argv[i:i+2]
    files = argv or FILES
    base_keys, base_err = baseline_keys()
    jobs = []
    for rel in files:
        src = core.Src( core.REPO, rel )
        for qn, defs in src.defs.items():
            fn = defs[-1]
            if not isinstance( fn, ast.FunctionDef ):
                continue
            if isinstance( src.parent.get( fn ), ast.FunctionDef ):
                continue			# nested functions are renamed together with their parent
            for old in local_names( fn ):
                if len( old ) < 2 and old != 'o':
                    pass
                new = old + '_rn'
                try:
                    text = rename_in_function( src.text, fn, old, new )
                except Exception as exc:
                    continue
                if text == src.text:
                    continue
                jobs.append(( rel, qn, old, text, base_keys, ONLY ))
    print( 'variants', len( jobs ))
    bad = 0
    with ProcessPoolExecutor( max_workers=14 ) as ex:
        for rel, qn, old, status, msgs in ex.map( probe, jobs, chunksize=4 ):
            if status != 'ok':
                bad += 1
                print( '%s %s: rename %r -> %s' % ( rel, qn, old, status ))
                for m in msgs[:4]:
                    print( '      ' + m )
    print( 'bad', bad, 'of', len( jobs ))


if __name__ == '__main__':
    main()
