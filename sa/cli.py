"""Rule runner: `python3 -m sa check <Cxx> [--tier quick|thorough]`, `... explain <replay.json>`,
`... list`, `... selftest [Cxx]`.

Exit 0: every rule instance of the property held (KNOWN-FINDING lines allowed).
Exit 1: at least one finding not listed in known_findings.json (one VIOLATION line each).
Exit 2: ANALYSIS-ERROR - the analyser could not decide (never reported as a violation)."""
import sys, os, json, time, traceback, argparse

from . import core
from .core import RULES, Ctx, AnalysisError, VERIF


def load_rules():
    # importing the modules registers the rules
    from . import rules_tables, rules_grammar, rules_paths, rules_layout, rules_locks, rules_framework, rules_client, rules_history, rules_frag, rules_regex  # noqa
    from . import props
    # every rule a property lists is named in what the property says it decides: a rule the hand-written text does not mention yet is
    # appended with the statement of its own docstring ( so that evidence and manifest never claim less than what is run )
    for pid, spec in props.PROPS.items():
        if spec.get( '_completed' ):
            continue
        extra = []
        for rid in spec['rules']:
            if rid not in spec['decides'] and rid in RULES:
                doc = ' '.join(( RULES[rid].get( 'doc' ) or '' ).split())
                extra.append( '%s: %s' % ( rid, doc[:600] + ( ' ...' if len( doc ) > 600 else '' )))
        if extra:
            spec['decides'] = spec['decides'].rstrip() + '  Also - ' + '  '.join( extra )
            spec['explanation'] = 'DECIDES (for every input/schedule, from the source alone): ' + spec['decides'] + '  DOES NOT DECIDE: ' + spec['not_decided']
        spec['_completed'] = True
    return props


def load_known():
    path = os.path.join( VERIF, 'known_findings.json' )
    if not os.path.exists( path ):
        return {}, []
    with open( path ) as f:
        doc = json.load( f )
    return { k['key']: k for k in doc.get( 'known', [] ) }, doc.get( 'fixed', [] )


def run_rules( ctx, rule_ids ):
    """-> ( results by rule id, analysis errors )"""
    results, errors = {}, []
    for rid in rule_ids:
        spec = RULES.get( rid )
        if spec is None:
            errors.append( '%s: rule not implemented' % rid )
            continue
        try:
            res = spec['fn']( ctx )
            if len( res.instances ) < spec['floor'] and not res.findings:
                raise AnalysisError( 'rule %s examined %d instances, below its floor %d (anchors lost?)' % (
                    rid, len( res.instances ), spec['floor'] ))
            results[rid] = res
        except AnalysisError as exc:
            errors.append( '%s: %s' % ( rid, exc ))
        except Exception as exc:					# a bug in the analyser is never a violation
            tb = traceback.format_exc().strip().splitlines()
            errors.append( '%s: internal error %s: %s [%s]' % ( rid, type( exc ).__name__, exc, ' | '.join( tb[-4:] )))
    return results, errors


def check( prop, tier='quick', root=None, write=True, quiet=False, evidence_dir=None ):
    props = load_rules()
    spec = props.PROPS.get( prop )
    if spec is None:
        print( 'ANALYSIS-ERROR property=%s not claimed (see MANIFEST.json not_applicable)' % prop )
        return 2
    t0 = time.time()
    ctx = Ctx( root, tier )
    rule_ids = list( spec['rules'] )
    if tier == 'thorough':
        rule_ids += [ r for r in spec.get( 'thorough_rules', () ) if r not in rule_ids ]
    results, errors = run_rules( ctx, rule_ids )
    known, fixed = load_known()

    findings, known_hits = [], []
    for rid in rule_ids:
        res = results.get( rid )
        if not res:
            continue
        for f in res.findings:
            if f.key in known and known[f.key].get( 'property' ) in ( prop, None ):
                known_hits.append(( f, known[f.key] ))
            elif f.key in known:
                known_hits.append(( f, known[f.key] ))
            else:
                findings.append( f )

    selftest = None
    if tier == 'thorough' and not errors:
        from . import selftest as st
        selftest = st.run_for_property( prop, root=ctx.model.root )
        for miss in selftest['misses']:
            errors.append( 'selftest: ' + miss )
    probes = None
    if tier == 'thorough' and not errors:
        # robustness probes over the files this property's rules actually anchor in: no behaviour-preserving rename / comparison flip
        # may change a verdict
        from . import probes as pb
        files = sorted( { i['site'].split( ':' )[0] for rid in rule_ids if rid in results for i in results[rid].instances if i.get( 'site' ) and i['site'].split( ':' )[0].endswith( '.py' ) } )
        probes = pb.run( rule_ids, files, root=ctx.model.root )
        for fa in probes['false_alarms'][:10]:
            errors.append( 'probe (behaviour-preserving edit changed a verdict): ' + fa )

    seeds = None
    if tier == 'thorough' and not errors:
        # replay of the kept seeded changes of this property ( confirmed property-breaking edits made by sub-agents, DESIGN 12 ), applied in
        # memory: the rules of the seed's own property have to report each one that still applies to the tree under analysis
        from . import seedreplay as sr
        seeds = sr.run_for_property( prop, rule_ids, root=ctx.model.root )
        for miss in seeds['misses']:
            errors.append( 'seeded change not reported: ' + miss )

    evdir = evidence_dir or os.path.join( VERIF, 'evidence' )
    lines = []
    replay_paths = []
    if write:
        os.makedirs( os.path.join( evdir, 'violations' ), exist_ok=True )
    for k, f in enumerate( findings ):
        rp = os.path.join( evdir, 'violations', '%s-%d.json' % ( prop, k ))
        if write:
            with open( rp, 'w' ) as fh:
                json.dump( dict( property=prop, finding=f.as_dict(), tier=tier,
                                 replay='python3 -m sa explain %s' % rp ), fh, indent=1 )
        replay_paths.append( rp )
        lines.append( 'VIOLATION property=%s replay=%s' % ( prop, rp ))
        lines.append( f.human() )
    for f, k in known_hits:
        lines.append( 'KNOWN-FINDING: property=%s %s [%s]' % ( prop, k.get( 'what', f.why ), f.key ))
    for e in errors:
        lines.append( 'ANALYSIS-ERROR property=%s %s' % ( prop, e ))

    # ------------------------------------------------------------ evidence
    instances = [ i for rid in rule_ids if rid in results for i in results[rid].instances ]
    obligations = len( instances )
    discharged = sum( 1 for i in instances if i['verdict'] == 'holds' )
    distinct = len( { ( i['rule'], i['fact'] ) for i in instances if i.get( 'nontrivial' ) } )
    per_rule = {}
    for rid in rule_ids:
        res = results.get( rid )
        per_rule[rid] = dict( doc=RULES[rid]['doc'].split( '\n' )[0] if rid in RULES else '?',
                              instances=len( res.instances ) if res else 0,
                              floor=RULES[rid]['floor'] if rid in RULES else 0,
                              findings=len( res.findings ) if res else 0,
                              cells=res.cells if res else 0,
                              notes=res.notes[:12] if res else [],
                              decided=bool( res ))
    samples = []
    for rid in rule_ids:
        res = results.get( rid )
        if res:
            samples.extend( res.instances[:3] )
    samples = samples[:40]
    wall = time.time() - t0
    cov = dict(
        explanation=spec['explanation'],
        rule='one obligation per (rule, anchored construct) examined on the current tree of %s; distinct = distinct '
             '(rule, normalised extracted fact) pairs that involve a source fact' % ctx.model.root,
        obligations=obligations, discharged=discharged,
        evaluations=obligations, distinct_nontrivial=distinct,
        exhaustive=True,
        checker_cmd='python3-vt -m sa check %s --tier %s' % ( prop, tier ),
        trusted_base=[ 'CPython ast/struct/re', 'sa/spec.py hand-written CIP tables',
                       'primitive consumption summaries of automata.py classes (sa/grammar.py)',
                       'name/MRO based callee resolution' ],
        samples=samples or [ dict( note='no instance examined' ) ],
        rules=per_rule,
        files_analysed=ctx.model.digests(),
        known_findings=[ dict( key=f.key, what=k.get( 'what' )) for f, k in known_hits ],
        fixed_findings=[ fx for fx in fixed if fx.get( 'property' ) == prop ],
        analysis_errors=errors,
    )
    if 'grammar' in ctx._cache:
        g = ctx._cache['grammar']
        cov['grammar'] = dict( machines=len( g.machines ), registrations=len( g.registrations ),
                               nodes=g.total_nodes, edges=g.total_edges, unknown_constructs=len( g.unknowns ))
    if selftest is not None:
        cov['selftest'] = { k: v for k, v in selftest.items() if k != 'misses' }
        cov['selftest']['misses'] = selftest['misses']
    if probes is not None:
        cov['robustness_probes'] = probes
    if seeds is not None:
        cov['seeded_changes'] = seeds
    ev = dict( property_id=prop, tier=tier, seed=int( os.environ.get( 'VERIF_SEED', '0' ) or 0 ), level='other',
               coverage=cov, wall_s=round( wall, 3 ), violations=len( findings ),
               assumptions=spec.get( 'assumptions', [] ) + [
                   'decides only the structural clauses named in coverage.explanation, not the run-time behaviour' ] )
    if write:
        os.makedirs( evdir, exist_ok=True )
        with open( os.path.join( evdir, '%s.json' % prop ), 'w' ) as fh:
            json.dump( ev, fh, indent=1, default=str )
    if not quiet:
        print( '%s tier=%s rules=%d obligations=%d discharged=%d findings=%d known=%d errors=%d wall=%.2fs' % (
            prop, tier, len( rule_ids ), obligations, discharged, len( findings ), len( known_hits ), len( errors ), wall ))
        for rid in rule_ids:
            pr = per_rule[rid]
            print( '  rule %-16s instances=%-4d floor=%-3d findings=%d%s' % (
                rid, pr['instances'], pr['floor'], pr['findings'], '' if pr['decided'] else '  UNDECIDED' ))
        for l in lines:
            print( l )
    if findings:
        return 1
    if errors:
        return 2
    return 0


def explain( path ):
    with open( path ) as f:
        doc = json.load( f )
    fd = doc['finding']
    print( 'property %s rule %s' % ( doc['property'], fd['rule'] ))
    print( '  at %s:%s in %s' % ( fd['file'], fd['line'], fd['function'] ))
    print( '  construct: %s' % fd['construct'] )
    print( '  why: %s' % fd['why'] )
    print( 're-running the rule on the current tree:' )
    load_rules()
    results, errors = run_rules( Ctx(), [ fd['rule'] ] )
    res = results.get( fd['rule'] )
    still = [ f for f in ( res.findings if res else [] ) if f.key == fd['key'] ]
    for e in errors:
        print( '  ANALYSIS-ERROR', e )
    print( '  finding %s on the current tree' % ( 'REPRODUCES' if still else 'does not reproduce' ))
    return 1 if still else 0


def main( argv=None ):
    ap = argparse.ArgumentParser( prog='sa' )
    sub = ap.add_subparsers( dest='cmd', required=True )
    c = sub.add_parser( 'check' ); c.add_argument( 'prop' ); c.add_argument( '--tier', default=os.environ.get( 'VERIF_TIER', 'quick' ))
    c.add_argument( '--root', default=None ); c.add_argument( '--no-write', action='store_true' )
    e = sub.add_parser( 'explain' ); e.add_argument( 'path' )
    sub.add_parser( 'list' )
    s = sub.add_parser( 'selftest' ); s.add_argument( 'prop', nargs='?' ); s.add_argument( '--jobs', type=int, default=16 )
    s.add_argument( '--verbose', action='store_true' )
    r = sub.add_parser( 'rule' ); r.add_argument( 'rid' ); r.add_argument( '--root', default=None )
    a = ap.parse_args( argv )
    try:
        if a.cmd == 'check':
            tier = a.tier if a.tier in ( 'quick', 'thorough' ) else 'quick'
            return check( a.prop, tier, root=a.root, write=not a.no_write )
        if a.cmd == 'explain':
            return explain( a.path )
        if a.cmd == 'list':
            props = load_rules()
            for p, spec in sorted( props.PROPS.items() ):
                print( p, ' '.join( spec['rules'] ))
            return 0
        if a.cmd == 'rule':
            load_rules()
            results, errors = run_rules( Ctx( a.root ), [ a.rid ] )
            for e_ in errors:
                print( 'ANALYSIS-ERROR', e_ )
            res = results.get( a.rid )
            if res:
                for i in res.instances:
                    print( '%-60s %s  -> %s' % ( i['site'], i['fact'][:120], i['verdict'] ))
                for n in res.notes:
                    print( 'note:', n )
                print( 'instances', len( res.instances ), 'findings', len( res.findings ))
            return 2 if errors else ( 1 if res and res.findings else 0 )
        if a.cmd == 'selftest':
            load_rules()
            from . import selftest as st
            return st.main( a.prop, jobs=a.jobs, verbose=a.verbose )
    except AnalysisError as exc:
        print( 'ANALYSIS-ERROR %s' % exc )
        return 2
    except Exception as exc:
        print( 'ANALYSIS-ERROR internal %s: %s' % ( type( exc ).__name__, exc ))
        traceback.print_exc()
        return 2
    return 2
